use super::*;

/// Parse only; report whether Ok or Err (without panicking on Err).
fn parse_only(cfg: &str) -> std::result::Result<(), String> {
    init_log();
    let _lk = match CFG_PARSE_LOCK.lock() {
        Ok(guard) => guard,
        Err(poisoned) => poisoned.into_inner(),
    };
    match Kanata::new_from_str(cfg, Default::default()) {
        Ok(_) => Ok(()),
        Err(e) => Err(format!("{e:?}")),
    }
}

// ---------- Candidate 1 ----------
#[test]
fn c01_parse_tap_dance_empty() {
    let r = parse_only("(defsrc a b)\n(deflayer base (tap-dance 200 ()) b)");
    eprintln!("C01 parse result: {r:?}");
    assert!(r.is_ok(), "parser rejected");
}

#[test]
fn c01_run_tap_dance_empty_timeout() {
    let r = simulate(
        "(defsrc a b)\n(deflayer base (tap-dance 200 ()) b)",
        "d:a t:300",
    );
    eprintln!("C01 output: {r:?}");
}

#[test]
fn c01_run_tap_dance_empty_short() {
    let r = simulate(
        "(defsrc a b)\n(deflayer base (tap-dance 200 ()) b)",
        "d:a t:5",
    );
    eprintln!("C01 output short: {r:?}");
}

#[test]
fn c01_run_tap_dance_empty_other_key() {
    let r = simulate(
        "(defsrc a b)\n(deflayer base (tap-dance 200 ()) b)",
        "d:a t:5 d:b t:5",
    );
    eprintln!("C01 output otherkey: {r:?}");
}

#[test]
fn c01_parse_tap_dance_eager_empty() {
    let r = parse_only("(defsrc a b)\n(deflayer base (tap-dance-eager 200 ()) b)");
    eprintln!("C01 eager parse result: {r:?}");
    assert!(r.is_ok(), "parser rejected");
}

#[test]
fn c01_run_tap_dance_eager_empty() {
    let r = simulate(
        "(defsrc a b)\n(deflayer base (tap-dance-eager 200 ()) b)",
        "d:a t:5 u:a t:5 d:a t:300",
    );
    eprintln!("C01 eager output: {r:?}");
}

// ---------- Candidate 2 ----------
const C02_MULTI: &str = "(defsrc a b)
(deflayer base (multi
 (layer-while-held l1) (layer-while-held l1) (layer-while-held l1) (layer-while-held l1)
 (layer-while-held l1) (layer-while-held l1) (layer-while-held l1) (layer-while-held l1)
 (layer-while-held l1) (layer-while-held l1) (layer-while-held l1) (layer-while-held l1)
 (layer-while-held l1)) b)
(deflayer l1 _ _)";

#[test]
fn c02_parse_multi13() {
    let r = parse_only(C02_MULTI);
    eprintln!("C02 multi parse result: {r:?}");
    assert!(r.is_ok(), "parser rejected");
}

#[test]
fn c02_run_multi13() {
    let r = simulate(C02_MULTI, "d:a t:10 d:b t:10");
    eprintln!("C02 multi output: {r:?}");
}

#[test]
fn c02_run_multi12_control() {
    // 12 entries: control (should not panic)
    let cfg = "(defsrc a b)
(deflayer base (multi
 (layer-while-held l1) (layer-while-held l1) (layer-while-held l1) (layer-while-held l1)
 (layer-while-held l1) (layer-while-held l1) (layer-while-held l1) (layer-while-held l1)
 (layer-while-held l1) (layer-while-held l1) (layer-while-held l1) (layer-while-held l1)
 ) b)
(deflayer l1 _ _)";
    let r = simulate(cfg, "d:a t:10 d:b t:10");
    eprintln!("C02 multi12 output: {r:?}");
}

const C02_SEP: &str = "(defsrc 1 2 3 4 5 6 7 8 9 0 q w e r)
(deflayer base
 (layer-while-held l1) (layer-while-held l1) (layer-while-held l1) (layer-while-held l1)
 (layer-while-held l1) (layer-while-held l1) (layer-while-held l1) (layer-while-held l1)
 (layer-while-held l1) (layer-while-held l1) (layer-while-held l1) (layer-while-held l1)
 (layer-while-held l1) r)
(deflayer l1 _ _ _ _ _ _ _ _ _ _ _ _ _ _)";

#[test]
fn c02_run_13_separate_keys() {
    let r = simulate(
        C02_SEP,
        "d:1 t:5 d:2 t:5 d:3 t:5 d:4 t:5 d:5 t:5 d:6 t:5 d:7 t:5 d:8 t:5 d:9 t:5 d:0 t:5 d:q t:5 d:w t:5 d:e t:5 d:r t:5",
    );
    eprintln!("C02 sep output: {r:?}");
}

// ---------- Candidate 3 ----------
#[test]
fn c03_on_press_delay_noarg() {
    let r = parse_only("(defsrc a)\n(deflayer base (on-press-delay))");
    eprintln!("C03 on-press-delay result: {r:?}");
}
#[test]
fn c03_on_release_delay_noarg() {
    let r = parse_only("(defsrc a)\n(deflayer base (on-release-delay))");
    eprintln!("C03 on-release-delay result: {r:?}");
}
#[test]
fn c03_on_press_fakekey_delay_noarg() {
    let r = parse_only("(defsrc a)\n(deflayer base (on-press-fakekey-delay))");
    eprintln!("C03 on-press-fakekey-delay result: {r:?}");
}
#[test]
fn c03_on_release_fakekey_delay_noarg() {
    let r = parse_only("(defsrc a)\n(deflayer base (on-release-fakekey-delay))");
    eprintln!("C03 on-release-fakekey-delay result: {r:?}");
}
#[test]
fn c03_control_with_arg() {
    let r = parse_only("(defsrc a)\n(deflayer base (on-press-delay 10))");
    eprintln!("C03 control result: {r:?}");
    assert!(r.is_ok());
}

// ---------- Candidate 4 ----------
#[test]
fn c04_arbitrary_code_empty_list() {
    let r = parse_only("(defsrc a)\n(deflayer base (arbitrary-code ()))");
    eprintln!("C04 arbitrary-code result: {r:?}");
}
#[test]
fn c04_arbitrary_code_nonempty_list_control() {
    let r = parse_only("(defsrc a)\n(deflayer base (arbitrary-code (1 2)))");
    eprintln!("C04 arbitrary-code control result: {r:?}");
    assert!(r.is_err());
}
#[test]
fn c04_defalias_empty_list_name() {
    let r = parse_only("(defsrc a)\n(defalias () a)\n(deflayer base a)");
    eprintln!("C04 defalias result: {r:?}");
}
#[test]
fn c04_defchords_empty_list_key() {
    let r = parse_only("(defsrc a)\n(deflayer base a)\n(defchords g 100 (()) a)");
    eprintln!("C04 defchords result: {r:?}");
}
#[test]
fn c04_on_press_fakekey_empty_list_name() {
    // vars: $v resolves to a list -> atom() is None -> "cannot be a list" (no {:?}); but an
    // unknown *atom* hits the {:?} path; need a list there, so this is control only.
    let r = parse_only(
        "(defsrc a)\n(defvirtualkeys vk a)\n(deflayer base (on-press-fakekey () tap))",
    );
    eprintln!("C04 on-press-fakekey result: {r:?}");
}

// ---------- Candidate 5 ----------
#[test]
fn c05_sym_alone() {
    let r = parse_only("(defsrc a)\n(deflayer base 🔣)");
    eprintln!("C05 result: {r:?}");
}
#[test]
fn c05_sym_control() {
    let r = parse_only("(defsrc a)\n(deflayer base 🔣x)");
    eprintln!("C05 control result: {r:?}");
    assert!(r.is_ok());
}

// ---------- Candidate 6 ----------
#[test]
fn c06_defvar_self_ref() {
    let r = parse_only("(defvar a $a)\n(defsrc a)\n(deflayer base $a)");
    eprintln!("C06 result: {r:?}");
}
#[test]
fn c06_defvar_self_ref_unused() {
    let r = parse_only("(defvar a $a)\n(defsrc a)\n(deflayer base a)");
    eprintln!("C06 unused result: {r:?}");
}
#[test]
fn c06_defvar_mutual_ref() {
    let r = parse_only("(defvar a $b b $a)\n(defsrc a)\n(deflayer base $a)");
    eprintln!("C06 mutual result: {r:?}");
}

// ---------- Candidate 7 ----------
#[test]
fn c07_parse_record_and_stop() {
    let r = parse_only(
        "(defsrc a b)\n(deflayer base (multi (dynamic-macro-record 1) dynamic-macro-record-stop) b)",
    );
    eprintln!("C07 parse result: {r:?}");
    assert!(r.is_ok());
}
#[test]
fn c07_run_record_and_stop_same_multi() {
    let r = simulate(
        "(defsrc a b)\n(deflayer base (multi (dynamic-macro-record 1) dynamic-macro-record-stop) b)",
        "d:a t:10",
    );
    eprintln!("C07 output: {r:?}");
}
#[test]
fn c07_run_record_and_stop_truncate_same_multi() {
    let r = simulate(
        "(defsrc a b)\n(deflayer base (multi (dynamic-macro-record 1) (dynamic-macro-record-stop-truncate 1)) b)",
        "d:a t:10",
    );
    eprintln!("C07 truncate output: {r:?}");
}
#[test]
fn c07_run_record_twice_same_multi() {
    let r = simulate(
        "(defsrc a b)\n(deflayer base (multi (dynamic-macro-record 1) (dynamic-macro-record 1)) b)",
        "d:a t:10",
    );
    eprintln!("C07 record twice output: {r:?}");
}
#[test]
fn c07_run_record_two_ids_same_multi() {
    let r = simulate(
        "(defsrc a b)\n(deflayer base (multi (dynamic-macro-record 1) (dynamic-macro-record 2)) b)",
        "d:a t:10",
    );
    eprintln!("C07 record two ids output: {r:?}");
}
#[test]
fn c07_run_record_via_vkey_then_stop() {
    // Recording started by a virtual key (no physical press recorded), then stopped via a
    // virtual key too: nothing ever lands in macro_items.
    let r = simulate(
        "(defsrc a b)
(defvirtualkeys rec (dynamic-macro-record 1) stp dynamic-macro-record-stop)
(deflayer base (macro (on-press tap-vkey rec) 10 (on-press tap-vkey stp)) b)",
        "d:a t:50",
    );
    eprintln!("C07 vkey output: {r:?}");
}
#[test]
fn c07_control_separate_keys() {
    let r = simulate(
        "(defsrc a b c)\n(deflayer base (dynamic-macro-record 1) dynamic-macro-record-stop c)",
        "d:a t:10 u:a t:10 d:c t:10 u:c t:10 d:b t:10 u:b t:10",
    );
    eprintln!("C07 control output: {r:?}");
}

// ---------- Candidate 8 ----------
#[test]
fn c08_parse_chordsv2_use_defsrc() {
    let r = parse_only(
        "(defcfg concurrent-tap-hold yes)
(defsrc a b)
(deflayer base a b)
(defchordsv2 (a b) use-defsrc 200 all-released ())",
    );
    eprintln!("C08 use-defsrc parse result: {r:?}");
    assert!(r.is_ok());
}
#[test]
fn c08_run_chordsv2_use_defsrc() {
    let r = simulate(
        "(defcfg concurrent-tap-hold yes)
(defsrc a b)
(deflayer base a b)
(defchordsv2 (a b) use-defsrc 200 all-released ())",
        "d:a t:10 d:b t:100 u:a u:b t:100",
    );
    eprintln!("C08 use-defsrc output: {r:?}");
}
#[test]
fn c08_parse_chordsv2_trans_direct() {
    let r = parse_only(
        "(defcfg concurrent-tap-hold yes)
(defsrc a b)
(deflayer base a b)
(defchordsv2 (a b) _ 200 all-released ())",
    );
    eprintln!("C08 direct trans parse result: {r:?}");
}
#[test]
fn c08_parse_chordsv2_trans_alias() {
    let r = parse_only(
        "(defcfg concurrent-tap-hold yes)
(defsrc a b)
(defalias t _)
(deflayer base a b)
(defchordsv2 (a b) @t 200 all-released ())",
    );
    eprintln!("C08 alias trans parse result: {r:?}");
    assert!(r.is_ok());
}
#[test]
fn c08_run_chordsv2_trans_alias() {
    let r = simulate(
        "(defcfg concurrent-tap-hold yes)
(defsrc a b)
(defalias t _)
(deflayer base a b)
(defchordsv2 (a b) @t 200 all-released ())",
        "d:a t:10 d:b t:100 u:a u:b t:100",
    );
    eprintln!("C08 alias trans output: {r:?}");
}

// ---------- Candidate 9 ----------
const C09: &str = "(defsrc 1 2 3 4 5)
(deflayer base
 (macro S-(a 1000 b))
 (macro C-(c 1000 d))
 (macro A-(e 1000 f))
 (macro M-(g 1000 h))
 (macro RA-(i 1000 j)))";

#[test]
fn c09_four_macros_control() {
    let r = simulate(C09, "d:1 t:3 d:2 t:3 d:3 t:3 d:4 t:3 u:1 u:2 u:3 u:4 t:3000").to_ascii();
    eprintln!("C09 four macros output: {r}");
}
#[test]
fn c09_five_macros() {
    let r = simulate(
        C09,
        "d:1 t:3 d:2 t:3 d:3 t:3 d:4 t:3 d:5 t:3 u:1 u:2 u:3 u:4 u:5 t:3000",
    )
    .to_ascii();
    eprintln!("C09 five macros output: {r}");
}

// ---------- follow-ups ----------
#[test]
fn c01_run_tap_dance_eager_empty_min() {
    let r = simulate(
        "(defsrc a b)\n(deflayer base (tap-dance-eager 200 ()) b)",
        "d:a t:2",
    );
    eprintln!("C01 eager min output: {r:?}");
}

const C02_SEP2: &str = "(defsrc 1 2 3 4 5 6 7 8 9 0 q w e r)
(deflayer base
 (layer-while-held l1) (layer-while-held l1) (layer-while-held l1) (layer-while-held l1)
 (layer-while-held l1) (layer-while-held l1) (layer-while-held l1) (layer-while-held l1)
 (layer-while-held l1) (layer-while-held l1) (layer-while-held l1) (layer-while-held l1)
 (layer-while-held l1) r)
(deflayer l1
 (layer-while-held l1) (layer-while-held l1) (layer-while-held l1) (layer-while-held l1)
 (layer-while-held l1) (layer-while-held l1) (layer-while-held l1) (layer-while-held l1)
 (layer-while-held l1) (layer-while-held l1) (layer-while-held l1) (layer-while-held l1)
 (layer-while-held l1) r)";

#[test]
fn c02_parse_13_separate_keys_v2() {
    let r = parse_only(C02_SEP2);
    eprintln!("C02 sep2 parse: {r:?}");
    assert!(r.is_ok());
}
#[test]
fn c02_run_13_separate_keys_v2() {
    let r = simulate(
        C02_SEP2,
        "d:1 t:5 d:2 t:5 d:3 t:5 d:4 t:5 d:5 t:5 d:6 t:5 d:7 t:5 d:8 t:5 d:9 t:5 d:0 t:5 d:q t:5 d:w t:5 d:e t:5 d:r t:5",
    );
    eprintln!("C02 sep2 output: {r:?}");
}
#[test]
fn c02_run_12_separate_keys_v2_control() {
    let r = simulate(
        C02_SEP2,
        "d:1 t:5 d:2 t:5 d:3 t:5 d:4 t:5 d:5 t:5 d:6 t:5 d:7 t:5 d:8 t:5 d:9 t:5 d:0 t:5 d:q t:5 d:w t:5 d:r t:5",
    );
    eprintln!("C02 sep2 12 output: {r:?}");
}
#[test]
fn c02_run_multi13_press_only() {
    // does the panic need a second key, or does it happen on the very next tick?
    let r = simulate(C02_MULTI, "d:a t:10");
    eprintln!("C02 multi press-only output: {r:?}");
}

#[test]
fn c05_sym_via_var() {
    let r = parse_only("(defvar v 🔣)\n(defsrc a)\n(deflayer base $v)");
    eprintln!("C05 var result: {r:?}");
}
#[test]
fn c05_sym_in_macro() {
    let r = parse_only("(defsrc a)\n(deflayer base (macro 🔣))");
    eprintln!("C05 macro result: {r:?}");
}
#[test]
fn c05_unicode_empty_quoted() {
    let r = parse_only("(defsrc a)\n(deflayer base (unicode \"\"))");
    eprintln!("C05 unicode empty result: {r:?}");
}

#[test]
fn c06_defvar_self_ref_list_ctx() {
    // resolution through list()/span_list() instead of atom()
    let r = parse_only("(defvar a $a)\n(defsrc a)\n(deflayer base (multi $a))");
    eprintln!("C06 list ctx result: {r:?}");
}
#[test]
fn c06_defvar_self_ref_concat() {
    let r = parse_only("(defvar a (concat $a x))\n(defsrc a)\n(deflayer base a)");
    eprintln!("C06 concat result: {r:?}");
}

#[test]
fn c09_five_macros_then_other_key() {
    let cfg = "(defsrc 1 2 3 4 5 6)
(deflayer base
 (macro S-(a 1000 b))
 (macro C-(c 1000 d))
 (macro A-(e 1000 f))
 (macro M-(g 1000 h))
 (macro RA-(i 1000 j))
 x)";
    let r = simulate(
        cfg,
        "d:1 t:3 d:2 t:3 d:3 t:3 d:4 t:3 d:5 t:3 u:1 u:2 u:3 u:4 u:5 t:10000 d:6 t:10 u:6 t:10000",
    )
    .to_ascii();
    eprintln!("C09 five macros + later key output: {r}");
    assert!(r.contains("dn:LShift"));
    assert!(!r.contains("up:LShift"), "LShift was released after all");
}
