// concrete playback of Kani counterexample for harness c05_k1_default
// re-run: ./check C05 --replay /verif/replays/C05-c05_k1_default.rs
/// Test generated for harness `layout::verif_kani::c05_k1_default` 
///
/// Check for `assertion`: ""no early trigger => tap / timeout / pending by the timing rule""

#[test]
fn kani_concrete_playback_c05_k1_default_17102371508565025462() {
    let concrete_vals: std::vec::Vec<std::vec::Vec<u8>> = vec![
        // 1
        vec![1, 0],
        // 32773
        vec![5, 128],
        // 65535
        vec![255, 255],
        // 1
        vec![1],
        // 1ul
        vec![1, 0, 0, 0, 0, 0, 0, 0],
        // 0
        vec![0, 0],
        // 0
        vec![0],
        // 3
        vec![3, 0],
    ];
    kani::concrete_playback_run(concrete_vals, c05_k1_default);
}
