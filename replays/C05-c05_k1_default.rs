// concrete playback of Kani counterexample for harness c05_k1_default
// re-run: ./check C05 --replay /verif/replays/C05-c05_k1_default.rs
/// Test generated for harness `layout::verif_kani::c05_k1_default` 
///
/// Check for `assertion`: "assertion failed: expect == Some(a)"

#[test]
fn kani_concrete_playback_c05_k1_default_8767552726701404712() {
    let concrete_vals: std::vec::Vec<std::vec::Vec<u8>> = vec![
        // 5
        vec![5, 0],
        // 8
        vec![8, 0],
        // 65535
        vec![255, 255],
        // 33
        vec![33],
        // 1ul
        vec![1, 0, 0, 0, 0, 0, 0, 0],
        // 0
        vec![0, 0],
        // 0
        vec![0],
        // 4
        vec![4, 0],
    ];
    kani::concrete_playback_run(concrete_vals, c05_k1_default);
}
