// concrete playback of Kani counterexample for harness c10_k1_eval_l4
// re-run: ./check C10 --replay /verif/replays/C10-c10_k1_eval_l4.rs
/// Test generated for harness `action::switch::verif_kani::c10_k1_eval_l4` 
///
/// Check for `assertion`: ""the case fires iff its written condition is true""

#[test]
fn kani_concrete_playback_c10_k1_eval_l4_7540181553520449032() {
    let concrete_vals: std::vec::Vec<std::vec::Vec<u8>> = vec![
        // 1
        vec![1],
        // 4ul
        vec![4, 0, 0, 0, 0, 0, 0, 0],
        // 2
        vec![2],
        // 1
        vec![1],
        // 3ul
        vec![3, 0, 0, 0, 0, 0, 0, 0],
        // 1
        vec![1],
        // 0
        vec![0],
        // 1
        vec![1],
        // 0
        vec![0],
        // 2
        vec![2],
        // 1
        vec![1],
        // 1
        vec![1],
        // 0
        vec![0],
    ];
    kani::concrete_playback_run(concrete_vals, c10_k1_eval_l4);
}
