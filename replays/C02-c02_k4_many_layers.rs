// concrete playback of Kani counterexample for harness c02_k4_many_layers
// re-run: ./check C02 --replay /verif/replays/C02-c02_k4_many_layers.rs
/// Test generated for harness `layout::verif_kani::c02_k4_many_layers` 
///
/// Check for `assertion`: "This is a placeholder message; Kani doesn't support message formatted at runtime"

#[test]
fn kani_concrete_playback_c02_k4_many_layers_11460619545729906421() {
    let concrete_vals: std::vec::Vec<std::vec::Vec<u8>> = vec![
        // 1
        vec![1],
        // 1
        vec![1],
        // 1ul
        vec![1, 0, 0, 0, 0, 0, 0, 0],
        // 1ul
        vec![1, 0, 0, 0, 0, 0, 0, 0],
        // 1ul
        vec![1, 0, 0, 0, 0, 0, 0, 0],
        // 1ul
        vec![1, 0, 0, 0, 0, 0, 0, 0],
        // 1ul
        vec![1, 0, 0, 0, 0, 0, 0, 0],
        // 1ul
        vec![1, 0, 0, 0, 0, 0, 0, 0],
        // 1ul
        vec![1, 0, 0, 0, 0, 0, 0, 0],
        // 1ul
        vec![1, 0, 0, 0, 0, 0, 0, 0],
        // 1ul
        vec![1, 0, 0, 0, 0, 0, 0, 0],
        // 1ul
        vec![1, 0, 0, 0, 0, 0, 0, 0],
        // 1ul
        vec![1, 0, 0, 0, 0, 0, 0, 0],
        // 1ul
        vec![1, 0, 0, 0, 0, 0, 0, 0],
        // 1ul
        vec![1, 0, 0, 0, 0, 0, 0, 0],
        // 1ul
        vec![1, 0, 0, 0, 0, 0, 0, 0],
        // 1ul
        vec![1, 0, 0, 0, 0, 0, 0, 0],
    ];
    kani::concrete_playback_run(concrete_vals, c02_k4_many_layers);
}
