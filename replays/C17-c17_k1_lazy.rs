// concrete playback of Kani counterexample for harness c17_k1_lazy
// re-run: ./check C17 --replay /verif/replays/C17-c17_k1_lazy.rs
/// Test generated for harness `layout::verif_kani::c17_k1_lazy` 
///
/// Check for `assertion`: "index out of bounds: the length is less than or equal to the given index"

#[test]
fn kani_concrete_playback_c17_k1_lazy_2659555263039720995() {
    let concrete_vals: std::vec::Vec<std::vec::Vec<u8>> = vec![
        // 0ul
        vec![0, 0, 0, 0, 0, 0, 0, 0],
        // 65535
        vec![255, 255],
        // 5
        vec![5, 0],
        // 1
        vec![1, 0],
        // 65535
        vec![255, 255],
        // 65535
        vec![255, 255],
        // 0
        vec![0],
        // 0ul
        vec![0, 0, 0, 0, 0, 0, 0, 0],
    ];
    kani::concrete_playback_run(concrete_vals, c17_k1_lazy);
}
