// concrete playback of Kani counterexample for harness c17_k1_lazy
// re-run: ./check C17 --replay /verif/replays/C17-c17_k1_lazy.rs
// Test generated for harness `layout::verif_kani::c17_k1_lazy`
// 
// Check for `assertion`: "assertion failed: own_rel_left ==
// total_own_releases.saturating_sub(expect_taps.saturating_sub(1))"
// 
#[test]
fn kani_concrete_playback_c17_k1_lazy_14900275100545632985() {
    let concrete_vals: std::vec::Vec<std::vec::Vec<u8>> = vec![
        // 2ul
        vec![2, 0, 0, 0, 0, 0, 0, 0],
        // 65534
        vec![254, 255],
        // 1
        vec![1, 0],
        // 65535
        vec![255, 255],
        // 0
        vec![0, 0],
        // 0
        vec![0, 0],
        // 255
        vec![255],
        // 3ul
        vec![3, 0, 0, 0, 0, 0, 0, 0],
        // 0
        vec![0, 0],
        // 1
        vec![1],
        // 65535
        vec![255, 255],
        // 1
        vec![1, 0],
        // 1
        vec![1],
        // 65535
        vec![255, 255],
        // 0
        vec![0, 0],
        // 0
        vec![0],
        // 65535
        vec![255, 255],
    ];
    kani::concrete_playback_run(concrete_vals, c17_k1_lazy);
}
