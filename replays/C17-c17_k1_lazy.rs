// concrete playback of Kani counterexample for harness c17_k1_lazy
// re-run: ./check C17 --replay /verif/replays/C17-c17_k1_lazy.rs
/// Test generated for harness `layout::verif_kani::c17_k1_lazy` 
///
/// Check for `assertion`: "assertion failed: ra.is_some() == expect_fire"

#[test]
fn kani_concrete_playback_c17_k1_lazy_5700846253919181238() {
    let concrete_vals: std::vec::Vec<std::vec::Vec<u8>> = vec![
        // 3ul
        vec![3, 0, 0, 0, 0, 0, 0, 0],
        // 1
        vec![1, 0],
        // 1
        vec![1, 0],
        // 2
        vec![2, 0],
        // 65535
        vec![255, 255],
        // 65535
        vec![255, 255],
        // 2
        vec![2],
        // 3ul
        vec![3, 0, 0, 0, 0, 0, 0, 0],
        // 0
        vec![0, 0],
        // 0
        vec![0],
        // 256
        vec![0, 1],
        // 0
        vec![0, 0],
        // 0
        vec![0],
        // 258
        vec![2, 1],
        // 1
        vec![1, 0],
        // 0
        vec![0],
        // 32768
        vec![0, 128],
    ];
    kani::concrete_playback_run(concrete_vals, c17_k1_lazy);
}
