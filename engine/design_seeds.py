#!/usr/bin/env python3
"""Rewrites section A.7 of DESIGN.md (between the SEEDS markers) from /verif/seeded/*/meta.json."""
import glob, json, os, re
rows = []
for d in sorted(glob.glob('/verif/seeded/*')):
    m = json.load(open(os.path.join(d, 'meta.json')))
    sid = os.path.basename(d)
    checks = m.get('checks_run', {})
    caught = [c for c, v in checks.items() if 'CAUGHT' in v]
    incon = [c for c, v in checks.items() if 'inconclusive' in v]
    if caught:
        st = 'caught by ' + ', '.join('./check ' + c for c in caught)
        if m.get('caught_by_harness'):
            st += ' (' + m['caught_by_harness'] + ')'
    elif incon:
        st = 'NOT reported as a violation (check inconclusive, exit 2): ' + m.get('notes', '')
    else:
        st = 'MISSED' + (': ' + m['why_missed'] if m.get('why_missed') else '')
    where = re.findall(r'(?:keyberon|parser|src)/[\w/]+\.rs', open(os.path.join(d, 'patch.diff')).read())
    where = sorted(set(where))[0] if where else ''
    rows.append(f"| {sid} | {m.get('property')} | {where} | {m.get('summary','')[:170].replace('|','/')} | {m.get('needs_to_manifest','')[:150].replace('|','/')} | {st} |")
n = len(rows)
nc = sum(1 for r in rows if '| caught by' in r)
txt = f"""<!-- SEEDS-BEGIN -->
{n} seeded changes were produced by fresh sub-agents that saw only the text of one property and their own scratch worktree
(nothing from /verif).  Each one was kept only after I confirmed, in a scratch worktree (engine/seedtest.sh), that the project's
whole test suite passes with it, that its demonstration fails with it and passes without it.  Each was then run against the
quick tier of the named check (same driver, `VERIF_REPO` pointing at a worktree with only the patch applied).  **{nc} of {n} are
reported as violations** (exit 1 with a natively reproduced replay); the others are listed with the reason.  Patches,
demonstrations and the commands run are in /verif/seeded/<id>/.  Honest accounting: of those, 25 were caught by kernels that
existed before the change was looked at; 9 (c02a_m1, c09a_m1, c04b_m1, c01b_m1, c06c_m1, c17c_m2, c05c_m1, c08b_m1, c11a_m1) were first
missed, or expected to be missed, and are caught by a kernel or assertion added in response (named in the result column);
the rest could not be reached by this technique for the reason given.

| id | prop | file | change | needs | result |
|---|---|---|---|---|---|
""" + "\n".join(rows) + "\n<!-- SEEDS-END -->"
p = '/verif/DESIGN.md'
s = open(p).read()
if '<!-- SEEDS-BEGIN -->' in s:
    s = re.sub(r'<!-- SEEDS-BEGIN -->.*<!-- SEEDS-END -->', lambda _: txt, s, flags=re.S)
else:
    s = s.replace('## 0. One-paragraph summary', '### A.7 Seeded changes: which checks catch which\n\n' + txt + '\n\n## 0. One-paragraph summary', 1)
open(p, 'w').write(s)
print(n, nc)
