#!/usr/bin/env python3
"""Copies confirmed seeded mutations from /tmp/seed_out into /verif/seeded and prints the catch table."""
import glob, json, os, shutil, sys
rows = []
for meta in sorted(glob.glob('/tmp/seed_out/c*/m*/meta.json')):
    d = os.path.dirname(meta)
    res = os.path.join(d, 'verif_result.json')
    if not os.path.exists(res):
        continue
    m = json.load(open(meta)); r = json.load(open(res))
    confirmed = r['suite_with_mutation'] == 'pass' and r['demo_with_mutation'] == 'FAIL' and r['demo_without_mutation'] == 'pass'
    sid = os.path.basename(os.path.dirname(d)) + '_' + os.path.basename(d)
    if not confirmed:
        rows.append((sid, m.get('property'), 'NOT CONFIRMED', r, m.get('summary', '')))
        continue
    out = os.path.join('/verif/seeded', sid)
    os.makedirs(out, exist_ok=True)
    shutil.copy(os.path.join(d, 'patch.diff'), out)
    shutil.copy(os.path.join(d, 'demo.diff'), out)
    checks = r.get('checks', {})
    caught = [c for c, rc in checks.items() if rc == '1']
    m2 = dict(m)
    m2['confirmed_by_verifier'] = {
        'full_suite_with_mutation': r['suite_with_mutation'], 'demo_with_mutation': r['demo_with_mutation'],
        'demo_without_mutation': r['demo_without_mutation'],
        'how': 'engine/seedtest.sh: scratch git worktree of /repo, `cargo test --workspace --offline` with the patch, demo with and without the patch',
    }
    m2['checks_run'] = {c: {'0': 'passed (MISSED)', '1': 'VIOLATION reported (CAUGHT)', '2': 'inconclusive'}.get(rc, rc) for c, rc in checks.items()}
    m2['detected'] = bool(caught)
    m2['notes'] = r.get('notes', '')
    old = os.path.join(out, 'meta.json')
    if os.path.exists(old):
        try:
            o = json.load(open(old))
            for k in ('why_missed', 'caught_by_harness'):
                if k in o and k not in m2:
                    m2[k] = o[k]
        except Exception:
            pass
    json.dump(m2, open(os.path.join(out, 'meta.json'), 'w'), indent=1)
    rows.append((sid, m.get('property'), 'CAUGHT by ' + ','.join(caught) if caught else 'MISSED', r, m.get('summary', '')))
for sid, prop, st, r, summ in rows:
    print(f"| {sid} | {prop} | {st} | {summ[:150]} |")
