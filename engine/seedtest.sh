#!/bin/bash
# seedtest.sh <mutation-dir> <check-id> [<check-id>..]
#  1. confirms the mutation in a scratch worktree (suite passes with it, demo fails with it, demo passes without it)
#  2. applies it to /repo, runs the given checks (quick tier), and always restores /repo
# Output: a summary on stdout + <mutation-dir>/verif_result.json
set -u
d=$(realpath "$1"); shift
wt=/tmp/seedchk.$$
export CARGO_NET_OFFLINE=true
demo_cmd=$(python3 -c "import json,sys; print(json.load(open('$d/meta.json'))['demo_cmd'])")
echo "== confirming $d (demo: $demo_cmd)"
git -C /repo worktree add --detach $wt HEAD -q || exit 3
cd $wt
suite=skip; demo_with=?; demo_without=?
git apply "$d/patch.diff" || { echo "patch does not apply"; cd /; git -C /repo worktree remove --force $wt; exit 3; }
if [ "${SKIP_SUITE:-0}" != 1 ]; then
  if cargo test --workspace --offline > $wt/suite.log 2>&1; then suite=pass; else suite=FAIL; fi
fi
git apply "$d/demo.diff" || echo "demo does not apply"
if (eval "$demo_cmd") > $wt/demo_with.log 2>&1; then demo_with=pass; else demo_with=FAIL; fi
git apply -R "$d/patch.diff"
if (eval "$demo_cmd") > $wt/demo_without.log 2>&1; then demo_without=pass; else demo_without=FAIL; fi
echo "   suite_with_mutation=$suite demo_with_mutation=$demo_with demo_without_mutation=$demo_without"
res=""
if [ "${CONFIRM_ONLY:-0}" = 1 ]; then set --; res=$(python3 -c "import json; print(' '.join(f'{k}:{v}' for k,v in json.load(open('$d/verif_result.json')).get('checks',{}).items()))" 2>/dev/null); fi
# run the checks against the worktree with ONLY the mutation applied (same code path as /repo: VERIF_REPO)
git checkout -q -- . ; git clean -fdq -e target; git apply "$d/patch.diff"
cd /verif
for c in "$@"; do
  out=$(VERIF_REPO=$wt ./check $c --tier ${TIER:-quick} --no-evidence ${ONLY:+--only $ONLY} 2>&1); rc=$?
  echo "   check $c -> exit $rc"; echo "$out" | grep -E "refuted|VIOLATION|INCONCLUSIVE|failed:" | head -6 | sed 's/^/      /'
  res="$res $c:$rc"
done
cd /; git -C /repo worktree remove --force $wt
python3 - "$d" "$suite" "$demo_with" "$demo_without" "$res" <<'PY'
import json,sys
d,suite,dw,dwo,res=sys.argv[1:6]
json.dump({"suite_with_mutation":suite,"demo_with_mutation":dw,"demo_without_mutation":dwo,"checks":dict(x.split(':') for x in res.split())},open(d+'/verif_result.json','w'),indent=1)
PY
