#!/bin/bash
# development helper: dev.sh <crate> <harness-name> [timeout_s] [extra cargo-kani args..]
# keeps a persistent mirror + target dir under /var/tmp/kvdev${SLOT} (not used by registered checks)
set -e
crate=$1; h=$2; to=${3:-600}; shift; shift; shift || true
python3 - "$crate" <<'PY'
import sys, os
sys.path.insert(0, '/verif/engine')
import run
run.build_mirror('/var/tmp/kvdev'+os.environ.get('SLOT',''), [sys.argv[1]])
PY
cd /var/tmp/kvdev${SLOT}/mirror
pkg=$(python3 -c "import sys; sys.path.insert(0,'/verif/engine'); import run; print(run.CRATES['$crate'][0])")
mod=$(python3 -c "import sys; sys.path.insert(0,'/verif/engine'); import run; print([x for x in run.load_registry() if x.name=='$h'][0].modpath())")
export CARGO_NET_OFFLINE=true
( ulimit -v 30000000; timeout $to cargo kani -p $pkg --exact --harness $mod --target-dir /var/tmp/kvdev${SLOT}/target-$crate "$@" > /var/tmp/kvdev${SLOT}/$h.log 2>&1 ) || true
grep -a -E "^VERIFICATION|Verification Time|^ \*\* |^error|Status: FAILURE|UNSATISFIABLE|Failed Checks" -A0 /var/tmp/kvdev${SLOT}/$h.log | cut -c1-300 | head -40
grep -a -B3 "Status: FAILURE" /var/tmp/kvdev${SLOT}/$h.log | grep -E "Description|Location" | cut -c1-300 | head -20
grep -a -B3 "Status: UNSATISFIABLE\|Status: UNREACHABLE" /var/tmp/kvdev${SLOT}/$h.log | grep -B1 -A2 "cover" | grep -E "Description" | cut -c1-200 | head
