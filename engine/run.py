#!/usr/bin/env python3
"""Driver for the solver-based (Kani/CBMC) checks of jtroo/kanata.

  ./check Cxx [--tier quick|thorough] [--replay <path>] [--keep] [--only <harness-substr>]

Every run regenerates a *mirror* of /repo's current working tree in a scratch
directory, appends `#[cfg(kani)] mod verif_kani { use super::*; include!(..); }`
to the mirrored copy of each source file that has harness files, runs
`cargo kani` on the selected harnesses, parses Kani's JSON export, replays any
counterexample natively (`cargo kani playback`) and writes
/verif/evidence/Cxx.json.

Exit status: 0 = every selected harness proved (within its stated bounds) and every
vacuity witness satisfied; 1 = a reproduced violation not listed in
known_findings.json (prints `VIOLATION property=.. replay=..`); 2 = inconclusive
(timeout / out of memory / build error / unreproduced counterexample / vacuity).
"""
import json
import os
import re
import shutil
import signal
import subprocess
import sys
import time

VERIF = os.path.dirname(os.path.dirname(os.path.abspath(__file__)))
REPO = os.environ.get("VERIF_REPO", "/repo")
HARNESS_DIR = os.environ.get("VERIF_HARNESS_DIR") or os.path.join(VERIF, "harness")  # override: development staging only
EVIDENCE_DIR = os.path.join(VERIF, "evidence")
REPLAY_DIR = os.path.join(VERIF, "replays")
KNOWN = os.path.join(VERIF, "known_findings.json")

# crate key -> (cargo package, directory of the crate's src in the mirror)
CRATES = {
    "keyberon": ("kanata-keyberon", "keyberon/src"),
    "parser": ("kanata-parser", "parser/src"),
    "kanata": ("kanata", "src"),
}
# crates whose dependency tree needs the vendored backtrace to compile under Kani
NEED_BACKTRACE_PATCH = {"parser", "kanata"}

MIRROR_EXCLUDES = [
    "target", ".git", "docs", "assets", "cfg_samples", "wasm", "interception",
    "key-sort-add", ".github", "EnableUIAccess",
]


def log(*a):
    print(*a, flush=True)


# --------------------------------------------------------------------------
# harness registry: parsed from `// @key value` comment blocks in harness files
# --------------------------------------------------------------------------
class Harness:
    def __init__(self):
        self.name = None
        self.props = []
        self.tier = "quick"
        self.timeout = 900
        self.crate = None
        self.src_rel = None      # e.g. layout.rs or cfg/sexpr.rs (relative to crate src)
        self.file = None         # harness file (absolute)
        self.meta = {}           # encodes / bounds / assumes / spec / stubs / inst
        self.flags = ""          # extra cargo-kani flags (grouping key)
        self.expect = "pass"
        self.unwind = None

    def modpath(self):
        # module path of the harness function inside the crate
        rel = self.src_rel[:-3]
        parts = rel.split("/")
        if parts[-1] == "mod":
            parts = parts[:-1]
        if parts == ["lib"]:
            parts = []
        return "::".join(parts + ["verif_kani", self.name])


def harness_file_target(fname):
    """`layout__c05_x.rs` -> `layout.rs`; `cfg~sexpr__k1.rs` -> `cfg/sexpr.rs`."""
    base = os.path.basename(fname)
    stem = base.split("__", 1)[0]
    return stem.replace("~", "/") + ".rs"


def load_registry():
    reg = []
    for crate in sorted(CRATES):
        d = os.path.join(HARNESS_DIR, crate)
        if not os.path.isdir(d):
            continue
        for fn in sorted(os.listdir(d)):
            if not fn.endswith(".rs"):
                continue
            path = os.path.join(d, fn)
            src_rel = harness_file_target(fn)
            cur = None
            pending = {}
            for line in open(path, encoding="utf-8"):
                s = line.strip()
                m = re.match(r"//\s*@(\w+)\s*(.*)$", s)
                if m:
                    key, val = m.group(1), m.group(2).strip()
                    if key == "harness":
                        cur = Harness()
                        cur.crate, cur.src_rel, cur.file = crate, src_rel, path
                        kv = dict(re.findall(r"(\w+)=(\S+)", val))
                        cur.name = kv["name"]
                        cur.props = kv.get("prop", "").split(",")
                        cur.tier = kv.get("tier", "quick")
                        cur.timeout = int(kv.get("timeout", "900"))
                        cur.expect = kv.get("expect", "pass")
                        pending = cur.meta
                    elif cur is not None:
                        if key == "flags":
                            cur.flags = val
                        else:
                            cur.meta[key] = (cur.meta.get(key, "") + " " + val).strip()
                    continue
                m = re.match(r"#\[kani::unwind\((\d+)\)\]", s)
                if m and cur is not None:
                    cur.unwind = int(m.group(1))
                m = re.match(r"(?:pub(?:\(\w+\))?\s+)?fn\s+(\w+)\s*\(", s)
                if m and cur is not None:
                    if m.group(1) != cur.name:
                        raise SystemExit(f"{path}: @harness name={cur.name} but fn {m.group(1)}")
                    reg.append(cur)
                    cur = None
    names = [h.name for h in reg]
    dup = {n for n in names if names.count(n) > 1}
    if dup:
        raise SystemExit(f"duplicate harness names: {dup}")
    return reg


# --------------------------------------------------------------------------
# mirror
# --------------------------------------------------------------------------
def scratch_root():
    base = os.environ.get("VERIF_SCRATCH") or os.environ.get("XDG_RUNTIME_DIR") or "/var/tmp"
    if not os.path.isdir(base) or not os.access(base, os.W_OK):
        base = "/var/tmp"
    return os.path.join(base, f"kanata-verif.{os.getpid()}")


def build_mirror(root, crates, extra_includes=None):
    """Copy /repo's working tree and append the harness child modules."""
    mirror = os.path.join(root, "mirror")
    os.makedirs(root, exist_ok=True)
    cmd = ["rsync", "-a", "--delete"]
    for e in MIRROR_EXCLUDES:
        cmd += ["--exclude", "/" + e]
    cmd += [REPO.rstrip("/") + "/", mirror + "/"]
    subprocess.run(cmd, check=True)
    appended = {}
    # harness modules of a crate may use helpers from the harness modules of its dependencies
    deps = {"kanata": ["kanata", "parser", "keyberon"], "parser": ["parser", "keyberon"], "keyberon": ["keyberon"]}
    closure = []
    for crate in crates:
        for d in deps.get(crate, [crate]):
            if d not in closure:
                closure.append(d)
    crates = closure
    for crate in crates:
        d = os.path.join(HARNESS_DIR, crate)
        by_src = {}
        for fn in sorted(os.listdir(d)):
            if fn.endswith(".rs"):
                by_src.setdefault(harness_file_target(fn), []).append(os.path.join(d, fn))
        for src_rel, files in by_src.items():
            target = os.path.join(mirror, CRATES[crate][1], src_rel)
            if not os.path.isfile(target):
                raise SystemExit(f"INCONCLUSIVE: harness target {target} does not exist in /repo's tree")
            body = "\n\n#[cfg(kani)]\n#[allow(unused_imports, dead_code, unused_variables, unused_mut, clippy::all)]\npub mod verif_kani {\n    use super::*;\n"
            for f in files:
                body += f'    include!("{f}");\n'
            for f in (extra_includes or {}).get((crate, src_rel), []):
                body += f'    include!("{f}");\n'
            body += "}\n"
            with open(target, "a", encoding="utf-8") as fh:
                fh.write(body)
            appended[(crate, src_rel)] = files
    if set(crates) & NEED_BACKTRACE_PATCH:
        vend = os.path.join(VERIF, "vendor", "backtrace")
        with open(os.path.join(mirror, "Cargo.toml"), "a") as fh:
            fh.write(f'\n[patch.crates-io]\nbacktrace = {{ path = "{vend}" }}\n')
    return mirror, appended


# --------------------------------------------------------------------------
# running kani
# --------------------------------------------------------------------------
def kani_env():
    env = dict(os.environ)
    env["CARGO_NET_OFFLINE"] = "true"
    env.pop("RUSTFLAGS", None)
    env.pop("RUSTUP_TOOLCHAIN", None)
    return env


def run_group(mirror, root, crate, flags, harnesses, jobs, memcap_kb):
    """One cargo-kani invocation for harnesses sharing crate + flags."""
    pkg = CRATES[crate][0]
    tdir = os.path.join(root, f"target-{crate}")
    tag = re.sub(r"\W+", "_", flags)[:40] or "std"
    js = os.path.join(root, f"res-{crate}-{tag}.json")
    logf = os.path.join(root, f"log-{crate}-{tag}.txt")
    maxto = max(h.timeout for h in harnesses)
    cmd = ["cargo", "kani", "-p", pkg, "--exact"]
    for h in harnesses:
        cmd += ["--harness", h.modpath()]
    cmd += ["-j", str(jobs), "--output-format", "terse", "-Z", "unstable-options",
            "--harness-timeout", f"{maxto}s", "--output-into-files", "--export-json", js,
            "--target-dir", tdir]
    if flags:
        cmd += flags.split()
    if os.path.exists(js):
        os.remove(js)
    t0 = time.time()
    shell = f"ulimit -v {memcap_kb}; exec " + " ".join(_q(c) for c in cmd)
    with open(logf, "w") as lf:
        p = subprocess.Popen(["bash", "-c", shell], cwd=mirror, env=kani_env(),
                             stdout=lf, stderr=subprocess.STDOUT, start_new_session=True)
        try:
            p.wait(timeout=maxto * 1.3 + 1500)
        except subprocess.TimeoutExpired:
            os.killpg(p.pid, signal.SIGKILL)
            p.wait()
    wall = time.time() - t0
    return js, logf, tdir, wall, p.returncode


def _q(s):
    return "'" + s.replace("'", "'\\''") + "'"


def parse_results(js, logf, tdir, harnesses):
    """-> {harness name: result dict}"""
    out = {}
    data = None
    if os.path.exists(js):
        try:
            data = json.load(open(js))
        except Exception:
            data = None
    logtxt = open(logf, errors="replace").read() if os.path.exists(logf) else ""
    by_mod = {h.modpath(): h for h in harnesses}
    if data is None:
        status = "build-error" if re.search(r"^error(\[E\d+\])?:", logtxt, re.M) else "no-result"
        errs = re.findall(r"^error.*$", logtxt, re.M)[:8]
        for h in harnesses:
            out[h.name] = {"status": status, "detail": errs}
        return out
    res = {r["harness_id"]: r for r in data.get("verification_results", {}).get("results", [])}
    pdet = {r["harness_id"]: r["property_details"] for r in data.get("property_details", [])}
    cb = {r["harness_id"]: r for r in data.get("cbmc", [])}
    for mod, h in by_mod.items():
        r = res.get(mod)
        if r is None:
            out[h.name] = {"status": "no-result", "detail": ["harness missing from Kani's JSON export"]}
            continue
        checks = r.get("checks", [])
        failed = [c for c in checks if c.get("status") == "Failure"]
        undet = [c for c in checks if c.get("status") in ("Undetermined", "SolverError")]
        covers = [c for c in checks if c.get("category") == "cover"]
        unsat_cov = [c for c in covers if c.get("status") != "Satisfied"]
        unwind_fail = [c for c in failed if c.get("category") == "unwind"]
        real_fail = [c for c in failed if c.get("category") != "unwind"]
        funcs = sorted({c.get("function", "") for c in checks if c.get("status") not in ("Unreachable",)})
        hl = os.path.join(tdir, "result_output_dir", mod)
        hlog = open(hl, errors="replace").read() if os.path.exists(hl) else ""
        st = r.get("status")
        if not checks:
            if "timed out" in hlog.lower() or "timeout" in hlog.lower() or "CBMC timed out" in logtxt:
                status = "timeout"
            elif "CBMC failed with status 6" in hlog or "out of memory" in hlog.lower() or "bad_alloc" in hlog or "SIGKILL" in hlog or "std::bad_alloc" in logtxt:
                status = "oom"
            else:
                status = "no-result"
        elif real_fail:
            status = "refuted"
        elif unwind_fail:
            status = "unwinding-insufficient"
        elif undet:
            status = "undetermined"
        elif unsat_cov:
            status = "vacuous"
        elif st == "Success":
            status = "proved"
        else:
            status = "no-result"
        pd = pdet.get(mod, {})
        stats = (cb.get(mod) or {}).get("cbmc_stats") or {}
        out[h.name] = {
            "status": status,
            "kani_status": st,
            "duration_s": round(r.get("duration_ms", 0) / 1000.0, 2),
            "checks_total": pd.get("total_properties", len(checks)),
            "checks_passed": pd.get("passed", 0),
            "checks_unreachable": pd.get("unreachable", 0),
            "covers_satisfied": pd.get("satisfied", 0),
            "covers_total": len(covers),
            "solver_s": round((stats.get("runtime_solver_s") or 0.0) + (stats.get("runtime_decision_procedure_s") or 0.0), 3),
            "symex_s": round(stats.get("runtime_symex_s") or 0.0, 3),
            "vccs": stats.get("vccs_generated") or 0,
            "vccs_remaining": stats.get("vccs_remaining") or 0,
            "failed": [_short(c) for c in real_fail + unwind_fail][:12],
            "unsat_covers": [_short(c) for c in unsat_cov],
            "functions": funcs,
        }
    return out


def _short(c):
    loc = c.get("location", {}) or {}
    f = loc.get("file", "")
    f = re.sub(r"^.*/mirror/", "", f)
    f = re.sub(r"^.*/registry/src/[^/]+/", "", f)
    f = re.sub(r"^.*/rustlib/src/rust/", "", f)
    return {"function": c.get("function", ""), "description": c.get("description", ""),
            "category": c.get("category", ""), "at": f"{f}:{loc.get('line', '')}"}


# --------------------------------------------------------------------------
# replay of counterexamples
# --------------------------------------------------------------------------
def gen_playback(mirror, root, h):
    """Re-run one refuted harness with concrete playback; return the unit-test text or None."""
    pkg = CRATES[h.crate][0]
    tdir = os.path.join(root, f"target-{h.crate}")
    logf = os.path.join(root, f"pb-{h.name}.txt")
    cmd = ["cargo", "kani", "-p", pkg, "--exact", "--harness", h.modpath(),
           "-Z", "concrete-playback", "--concrete-playback=print", "--target-dir", tdir]
    if h.flags:
        cmd += h.flags.split()
    with open(logf, "w") as lf:
        try:
            subprocess.run(cmd, cwd=mirror, env=kani_env(), stdout=lf, stderr=subprocess.STDOUT,
                           timeout=h.timeout * 2 + 600)
        except subprocess.TimeoutExpired:
            return None
    txt = open(logf, errors="replace").read()
    # Kani prints one unit test per failed check AND per satisfied cover; take a test generated for a failed
    # check (its doc comment names the check kind), never one for a cover witness
    blocks = re.findall(r"```\s*\n(.*?)```", txt, re.S)
    for b in blocks:
        if "Check for `cover`" not in b:
            return b
    return None


def run_playback(root, h, test_text, replay_path):
    """Compile the playback test natively against a fresh mirror and run it (dev + release).
    Returns dict profile -> 'reproduced' | 'not-reproduced' | 'error'."""
    with open(replay_path, "w") as fh:
        fh.write(f"// concrete playback of Kani counterexample for harness {h.name}\n")
        fh.write(f"// re-run: ./check {h.props[0]} --replay {replay_path}\n")
        # harness modules may shadow `Vec` (heapless); name the std types explicitly
        # keep only the test itself: Kani's doc comment repeats the failed assertion text, which may span
        # several lines (and then is not a comment any more)
        head = test_text[:test_text.index("#[test]")] if "#[test]" in test_text else ""
        body = test_text[len(head):]
        for ln in head.splitlines():
            fh.write("// " + ln.lstrip("/ ").rstrip() + "\n")
        fh.write(body.replace("Vec<Vec<u8>>", "std::vec::Vec<std::vec::Vec<u8>>"))
    return replay_file(root, h, replay_path)


def replay_file(root, h, replay_path):
    proot = os.path.join(root, "playback")
    if os.path.isdir(proot):
        shutil.rmtree(proot)
    mirror, _ = build_mirror(proot, [h.crate], {(h.crate, h.src_rel): [replay_path]})
    m = re.search(r"fn\s+(kani_concrete_playback_\w+)", open(replay_path).read())
    tname = m.group(1) if m else "kani_concrete_playback"
    pkg = CRATES[h.crate][0]
    res = {}
    # `cargo kani playback` has no --release switch (it rejects the flag), so the replay runs in the dev
    # profile, the one Kani models
    for prof in ("dev",):
        cmd = ["cargo", "kani", "playback", "-Z", "concrete-playback", "-p", pkg]
        if prof == "release":
            cmd += ["--release"]
        cmd += ["--", tname]
        logf = os.path.join(root, f"playback-{h.name}-{prof}.txt")
        with open(logf, "w") as lf:
            try:
                # build first (not timed), then run the one test under a watchdog: a playback that does not
                # terminate reproduces a non-termination counterexample (failed unwinding assertion)
                subprocess.run(cmd[:-1] + ["--list"], cwd=mirror, env=kani_env(), stdout=lf,
                               stderr=subprocess.STDOUT, timeout=3600)
                p = subprocess.run(cmd, cwd=mirror, env=kani_env(), stdout=lf,
                                   stderr=subprocess.STDOUT, timeout=300)
                rc = p.returncode
            except subprocess.TimeoutExpired:
                rc = -9
        txt = open(logf, errors="replace").read()
        if rc == -9:
            res[prof] = "reproduced"
            res[prof + "_panic"] = "the native playback did not terminate within 300 s (non-termination)"
        elif re.search(r"panicked at library/kani/src/concrete_playback\.rs", txt):
            # the playback harness itself failed (values do not fit the harness, e.g. a stale replay file):
            # that is not a reproduction
            res[prof] = "error"
        elif re.search(r"test result: FAILED", txt) or re.search(r"panicked at", txt):
            res[prof] = "reproduced"
        elif re.search(r"test result: ok\. [1-9]", txt):
            res[prof] = "not-reproduced"
        else:
            res[prof] = "error"
        pan = re.findall(r"panicked at [^\n]*\n[^\n]*", txt)
        if pan:
            res[prof + "_panic"] = pan[0][:300]
    shutil.rmtree(proot, ignore_errors=True)
    return res


# --------------------------------------------------------------------------
# known findings
# --------------------------------------------------------------------------
def load_known():
    if not os.path.exists(KNOWN):
        return {"findings": [], "fixed": []}
    return json.load(open(KNOWN))


def match_known(known, prop, h, failed):
    """All failed checks of the harness must be covered by listed findings for it."""
    fs = [k for k in known.get("findings", []) if k.get("property") == prop and k.get("harness") == h.name]
    if not fs or not failed:
        return None
    used = []
    for c in failed:
        hit = None
        for k in fs:
            if re.search(k["match_function"], c["function"]) and re.search(k["match_description"], c["description"]):
                hit = k
                break
        if hit is None:
            return None
        if hit not in used:
            used.append(hit)
    return used


# --------------------------------------------------------------------------
# main
# --------------------------------------------------------------------------
def do_setup():
    """Offline sanity check of the tool chain (nothing is downloaded or built into /verif)."""
    ok = True
    for tool in (["cargo", "kani", "--version"], ["cbmc", "--version"], ["rsync", "--version"]):
        try:
            r = subprocess.run(tool, stdout=subprocess.PIPE, stderr=subprocess.STDOUT, env=kani_env(), timeout=120)
            line = r.stdout.decode(errors="replace").splitlines()[0] if r.stdout else ""
            log(f"setup: {' '.join(tool)} -> {line}")
            ok = ok and r.returncode == 0
        except Exception as e:  # noqa: BLE001
            log(f"setup: {' '.join(tool)} failed: {e}")
            ok = False
    if not os.path.isdir(os.path.join(VERIF, "vendor", "backtrace")):
        log("setup: note: vendor/backtrace missing (needed only for parser/kanata crate harnesses)")
    reg = load_registry()
    log(f"setup: {len(reg)} harnesses registered")
    os.makedirs(EVIDENCE_DIR, exist_ok=True)
    os.makedirs(REPLAY_DIR, exist_ok=True)
    return 0 if ok else 1


def main(argv):
    import argparse
    if argv and argv[0] == "--setup":
        return do_setup()
    ap = argparse.ArgumentParser()
    ap.add_argument("prop")
    ap.add_argument("--tier", default=os.environ.get("VERIF_TIER", "quick"))
    ap.add_argument("--replay")
    ap.add_argument("--keep", action="store_true")
    ap.add_argument("--only", default=None)
    ap.add_argument("--list", action="store_true")
    ap.add_argument("--cap", type=int, default=0, help="development: cap every harness timeout (s)")
    ap.add_argument("--no-evidence", action="store_true")
    args = ap.parse_args(argv)
    tier = args.tier if args.tier in ("quick", "thorough") else "quick"
    seed = int(os.environ.get("VERIF_SEED", "0") or 0)
    prop = args.prop
    reg = load_registry()

    if args.list:
        for h in reg:
            print(h.name, ",".join(h.props), h.tier, h.crate, h.src_rel)
        return 0

    root = scratch_root()
    if os.path.isdir(root):
        shutil.rmtree(root)
    os.makedirs(root)
    try:
        if args.replay:
            return do_replay(root, reg, prop, args.replay)
        return do_check(root, reg, prop, tier, seed, args)
    finally:
        if not args.keep:
            shutil.rmtree(root, ignore_errors=True)
        else:
            log(f"[kept scratch dir {root}]")


def do_replay(root, reg, prop, path):
    path = os.path.abspath(path)
    txt = open(path).read()
    m = re.search(r"for harness (\w+)", txt)
    if not m:
        log("replay file does not name its harness")
        return 2
    hs = [h for h in reg if h.name == m.group(1)]
    if not hs:
        log(f"unknown harness {m.group(1)}")
        return 2
    res = replay_file(root, hs[0], path)
    log(json.dumps(res, indent=1))
    if "reproduced" in (res.get("dev"), res.get("release")):
        log(f"VIOLATION property={prop} replay={path}")
        return 1
    return 0


def do_check(root, reg, prop, tier, seed, args):
    t_start = time.time()
    sel = [h for h in reg if prop in h.props and (h.tier == "quick" or tier == "thorough")]
    if args.only:
        sel = [h for h in sel if any(o in h.name for o in args.only.split(","))]
    if args.cap:
        for h in sel:
            h.timeout = min(h.timeout, args.cap)
    if not sel:
        log(f"no harness registered for {prop} at tier {tier}")
        return 2
    # VERIF_SEED only permutes the scheduling order; every selected harness is always run.
    if seed:
        import random
        random.Random(seed).shuffle(sel)
    crates = sorted({h.crate for h in sel})
    log(f"[{prop}/{tier}] {len(sel)} harnesses over crates {crates}; mirror of {REPO} in {root}")
    mirror, appended = build_mirror(root, crates)
    extract = os.path.join(VERIF, "engine", "extract.py")
    if os.path.exists(extract):
        r = subprocess.run([sys.executable, extract, mirror, root], cwd=VERIF)
        if r.returncode != 0:
            log("INCONCLUSIVE: source extraction step failed")
            return 2
    ncpu = os.cpu_count() or 4
    groups = {}
    for h in sel:
        groups.setdefault((h.crate, h.flags), []).append(h)
    results = {}
    group_info = []
    memcap_kb = int(os.environ.get("VERIF_MEMCAP_KB", str(24 * 1024 * 1024)))
    # one cargo-kani invocation per (crate, flag set); invocations run concurrently, each with its own
    # target dir, and share the job budget (memory, not cores, is the limit: 62 GB, no swap)
    budget = int(os.environ.get("VERIF_JOBS", "6"))
    ng = max(1, len(groups))

    def _run(item):
        (crate, flags), hs = item
        jobs = max(1, min(len(hs), ncpu, max(1, budget // ng)))
        groot = root if ng == 1 else os.path.join(root, "g-" + (re.sub(r"\W+", "_", flags)[:24] or "std") + "-" + crate)
        os.makedirs(groot, exist_ok=True)
        js, logf, tdir, wall, rc = run_group(mirror, groot, crate, flags, hs, jobs, memcap_kb)
        return (crate, flags, hs, js, logf, tdir, wall, rc)

    from concurrent.futures import ThreadPoolExecutor
    with ThreadPoolExecutor(max_workers=ng) as ex:
        outs = list(ex.map(_run, groups.items()))
    for crate, flags, hs, js, logf, tdir, wall, rc in outs:
        r = parse_results(js, logf, tdir, hs)
        results.update(r)
        group_info.append({"crate": crate, "flags": flags, "harnesses": [h.name for h in hs],
                           "wall_s": round(wall, 1), "cargo_kani_exit": rc})
        if any(v["status"] in ("build-error", "no-result") for v in r.values()):
            tail = open(logf, errors="replace").read()[-3000:]
            log("---- cargo kani log tail ----")
            log("\n".join(l[:300] for l in tail.splitlines()[-40:]))

    known = load_known()
    violations = []
    known_hits = []
    inconclusive = []
    byname = {h.name: h for h in sel}
    for name, r in results.items():
        h = byname[name]
        st = r["status"]
        log(f"  {name}: {st}  ({r.get('duration_s', '?')} s, {r.get('checks_total', 0)} checks, covers {r.get('covers_satisfied', 0)}/{r.get('covers_total', 0)})")
        if st == "proved":
            continue
        if st == "refuted":
            for c in r["failed"][:6]:
                log(f"      failed: {c['description']} @ {c['at']} in {c['function'][:90]}")
            kh = match_known(known, prop, h, r["failed"])
            if kh is not None:
                for k in kh:
                    known_hits.append(k)
                r["known_finding"] = [k["id"] for k in kh]
                continue
            if violations and os.environ.get("VERIF_REPLAY_ALL", "0") != "1":
                # one natively reproduced violation already decides the exit status; the further refuted
                # harnesses are reported but not replayed (set VERIF_REPLAY_ALL=1 to replay every one)
                r["replay"] = "skipped: another violation of this run was already reproduced natively"
                log(f"      (replay skipped for {name}: a violation was already reproduced in this run)")
                continue
            os.makedirs(REPLAY_DIR, exist_ok=True)
            replay_path = os.path.join(REPLAY_DIR, f"{prop}-{name}.rs")
            test = gen_playback(mirror, root, h)
            if test is None:
                r["replay"] = "no concrete playback test produced"
                inconclusive.append((name, "counterexample could not be extracted"))
                continue
            rp = run_playback(root, h, test, replay_path)
            r["replay"] = rp
            r["replay_path"] = replay_path
            if "reproduced" in (rp.get("dev"), rp.get("release")):
                violations.append((name, replay_path, r["failed"][0]))
            else:
                inconclusive.append((name, f"counterexample did not reproduce natively: {rp}"))
        elif st == "unwinding-insufficient" and h.meta.get("unwind_ok", "") != "":
            # the harness declares (`@unwind_ok`) that its bound is sufficient on correct code, so a failed
            # unwinding assertion means a loop that runs longer than it ever should: replay it natively
            for c in r.get("failed", [])[:4]:
                log(f"      {c['category']}: {c['description']} @ {c['at']}")
            os.makedirs(REPLAY_DIR, exist_ok=True)
            replay_path = os.path.join(REPLAY_DIR, f"{prop}-{name}.rs")
            test = gen_playback(mirror, root, h)
            rp = run_playback(root, h, test, replay_path) if test else {}
            r["replay"] = rp or "no concrete playback test produced"
            if "reproduced" in (rp.get("dev"), rp.get("release")):
                r["replay_path"] = replay_path
                violations.append((name, replay_path, r["failed"][0]))
            else:
                inconclusive.append((name, st))
        else:
            for c in r.get("failed", [])[:4]:
                log(f"      {c['category']}: {c['description']} @ {c['at']}")
            for c in r.get("unsat_covers", [])[:6]:
                log(f"      vacuity: cover not satisfied: {c['description']} @ {c['at']}")
            for d in r.get("detail", [])[:6]:
                log(f"      {d[:200]}")
            inconclusive.append((name, st))

    wall = time.time() - t_start
    if not args.no_evidence and not args.only:
        write_evidence(prop, tier, seed, sel, results, group_info, violations, known_hits, inconclusive, wall)

    for k in known_hits:
        log(f"KNOWN-FINDING: property={prop} {k['what']}")
    if violations:
        for name, path, c in violations:
            log(f"VIOLATION property={prop} replay={path}")
            log(f"    harness {name}: {c['description']} @ {c['at']}")
        return 1
    if inconclusive:
        for name, why in inconclusive:
            log(f"INCONCLUSIVE harness={name}: {why}")
        return 2
    log(f"[{prop}/{tier}] all {len(sel)} harnesses proved within their bounds in {wall:.0f} s")
    return 0


def write_evidence(prop, tier, seed, sel, results, group_info, violations, known_hits, inconclusive, wall):
    os.makedirs(EVIDENCE_DIR, exist_ok=True)
    obligations = sum((r.get("checks_total") or 0) for r in results.values())
    discharged = sum((r.get("checks_passed") or 0) + (r.get("checks_unreachable") or 0) + (r.get("covers_satisfied") or 0)
                     for r in results.values() if r["status"] == "proved")
    reachable_user = 0
    samples = []
    functions = set()
    for h in sel:
        r = results.get(h.name, {})
        functions.update(f for f in r.get("functions", []) if f and not f.startswith(("std::", "core::", "kani::", "alloc::", "<")))
        reach = (r.get("checks_passed") or 0) + (r.get("covers_satisfied") or 0)
        reachable_user += 1 if (r.get("status") == "proved" and reach > 0) else 0
        samples.append({
            "harness": h.name, "crate": h.crate, "appended_to": h.src_rel, "status": r.get("status"),
            "unwind": h.unwind, "extra_flags": h.flags,
            "encodes": h.meta.get("encodes", ""), "bounds": h.meta.get("bounds", ""),
            "assumes": h.meta.get("assumes", ""), "stubs": h.meta.get("stubs", ""),
            "spec": h.meta.get("spec", ""), "instantiation": h.meta.get("inst", ""),
            "cbmc_checks": (r.get("checks_total") or 0), "cbmc_checks_reachable_passed": (r.get("checks_passed") or 0),
            "cover_witnesses": f"{r.get('covers_satisfied', 0)}/{r.get('covers_total', 0)}",
            "vccs_generated": (r.get("vccs") or 0), "vccs_after_slicing": (r.get("vccs_remaining") or 0),
            "solver_s": (r.get("solver_s") or 0), "symex_s": (r.get("symex_s") or 0), "verification_s": (r.get("duration_s") or 0),
            "failed_checks": r.get("failed", []), "replay": r.get("replay"), "known_finding": r.get("known_finding"),
        })
    # expand "as <harness>" cross references in the harness metadata so that every sample is self-contained
    allmeta = {h.name: h.meta for h in load_registry()}

    def _expand(val, key, depth=0):
        m = re.match(r"^as (\w+)(.*)$", val or "")
        if m and m.group(1) in allmeta and depth < 4:
            base = _expand(allmeta[m.group(1)].get(key, ""), key, depth + 1)
            return (base + " " + m.group(2).strip()).strip() if m.group(2).strip() else base
        return val

    for smp in samples:
        for key, mk in (("encodes", "encodes"), ("bounds", "bounds"), ("assumes", "assumes"), ("spec", "spec"), ("instantiation", "inst")):
            smp[key] = _expand(smp.get(key, ""), mk)
    assumptions = sorted({s_["assumes"] for s_ in samples if s_.get("assumes") and not s_["assumes"].startswith("none")})
    ev = {
        "property_id": prop,
        "tier": tier,
        "seed": seed,
        "level": "model_checking",
        "coverage": {
            "evaluations": obligations,
            "distinct_nontrivial": sum((r.get("checks_passed") or 0) + (r.get("covers_satisfied") or 0)
                                       for r in results.values() if r["status"] == "proved"),
            "rule": "bounded model checking (Kani 0.68 -> CBMC 6.11 -> CaDiCaL) of the real functions compiled from /repo's current tree; "
                    "evaluations = CBMC properties (panic/overflow/bounds/unwinding checks + harness assertions + cover witnesses) generated over "
                    "all harnesses; distinct_nontrivial = those that are reachable and were decided SUCCESS/SATISFIED by the solver in harnesses that "
                    "completed (UNREACHABLE checks are not counted); each is decided for every value of the harness's symbolic inputs within its "
                    "stated bounds, not sampled",
            "samples": samples,
            "obligations": obligations,
            "discharged": discharged,
            "checker_cmd": "cargo kani -p <crate> --exact --harness <h>.. -j N --output-format terse -Z unstable-options --harness-timeout T --export-json (see engine/run.py)",
            "trusted_base": ["Kani 0.68.0 MIR->goto translation and its std/alloc models", "CBMC 6.11.0", "CaDiCaL",
                             "the harness specifications in /verif/harness", "appended child modules see the real private items unchanged"],
            "harnesses_total": len(sel),
            "harnesses_proved": sum(1 for r in results.values() if r["status"] == "proved"),
            "harnesses_not_completed": [{"harness": n, "why": w} for n, w in inconclusive],
            "functions_encoded": sorted(functions)[:400],
            "solver_time_s": round(sum((r.get("solver_s") or 0) for r in results.values()), 2),
            "verification_time_s": round(sum((r.get("duration_s") or 0) for r in results.values()), 2),
            "invocations": group_info,
            "known_findings_hit": [k["id"] for k in known_hits],
            "exhaustive": False,
        },
        "assumptions": assumptions + [
            "bounds: every harness states its container sizes and unwind bound; unwinding assertions are on, nothing is claimed outside the bounds",
            "Kani models the dev profile (overflow checks on); counterexamples are replayed natively in the dev profile (cargo kani playback has no release switch)",
        ],
        "wall_s": round(wall, 1),
        "violations": len(violations),
    }
    with open(os.path.join(EVIDENCE_DIR, f"{prop}.json"), "w") as fh:
        json.dump(ev, fh, indent=1)


if __name__ == "__main__":
    sys.exit(main(sys.argv[1:]))
