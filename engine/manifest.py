#!/usr/bin/env python3
"""Regenerates /verif/MANIFEST.json from the tables below + the harness registry."""
import json
import os
import sys

sys.path.insert(0, os.path.dirname(os.path.abspath(__file__)))
import run  # noqa: E402

VERIF = run.VERIF

TECH = "bounded model checking of the real Rust functions with Kani 0.68 / CBMC 6.11 (CaDiCaL): symbolic kernel/step-contract harnesses, unwinding assertions on, counterexamples replayed natively"

# property -> (level text, level note, design ref)
CLAIMS = {
    "C01": (
        "Solver-decided step lemmas for the mechanisms that release output: release-by-coordinate (State::release for every state "
        "variant; Layout::dequeue(Release) incl. one-shot deferral), one-shot termination/eviction (shared with C06), macro-key release predicate, "
        "chords-v2 releases applied to active chords (also while chord activation is being ignored), custom-action state creation. For every value of "
        "the symbolic pre-state within the stated bounds. The liveness statement over whole histories is NOT decided: composition of the "
        "lemmas is a written induction (DESIGN.md C01).",
        "Bounds and assumptions per harness are in the evidence samples. Trusted: Kani/CBMC, the harness specs, the struct-literal Layout "
        "constructor used by the harnesses. Not covered: kanata-side output diffing, mouse/scroll handlers, sequences, zippychord, chords v2 release.",
        "DESIGN.md C01"),
    "C05": (
        "The tap-hold decision function WaitingState::tick_wt/handle_hold_tap is compared with a reference written from the documentation "
        "for all three built-in variants, for every queue of <= 3 (thorough 4) symbolic events and every value of all timing scalars.",
        "Decides the 'exactly one of tap/hold/timeout, on time, on the documented triggers' clause at the level of one decision step from an "
        "arbitrary waiting state; plus creation of the pending decision and the tap-repress window (do_action HoldTap arm) and 'resolved exactly once' "
        "(waiting_into_hold/tap/timeout). Not covered: custom (release-keys/except-keys) closures (Kani compiler crash), replay order of buffered keys across ticks "
        "(tick-level kernel only in the thorough tier).",
        "DESIGN.md C05"),
    "C06": (
        "One inductive step of the one-shot state machine (handle_press / handle_release / tick_osh) from an arbitrary table "
        "(<= 3 active keys, <= 3 deferred releases, <= 2 recorded presses, all 4 end configs, all scalars): modified-key set, end triggers, expiry, "
        "deferral, pcancel, overflow eviction, and 'never lingers' (after the end nothing is modified or deferred).",
        "OneShotState transitions plus 'every non-one-shot action notifies the one-shot' for the key / output chord / layer / layer-switch / no-op / custom / macro arms of do_action. "
        "Activation through do_action(OneShot) (does not finish) and the pause_input_processing interaction inside Layout::tick are outside.",
        "DESIGN.md C06"),
    "C09": (
        "Chords v1: table lookups vs set-theoretic reference for all masks; handle_chord: relational order-independence (two press orders, "
        "solver-chosen exchange), exact-set firing, nothing swallowed or reordered; decomposition vs greedy largest-prefix reference.",
        "Constant 3-key groups, queue <= 3; decomposition stubbed (counter) in the handle_chord harnesses and checked separately on 2 queued presses "
        "(full 3-event version in the thorough tier). Chords v2 (FxHashMap) and release timing across ticks are outside.",
        "DESIGN.md C09"),
    "C10": (
        "Switch: opcode encode/decode round trip for every operand value, lossy tick compression bounds for every u16, every leaf kind "
        "against its definition on symbolic histories, case iteration with break/fallthrough, and the boolean evaluator against a recursive "
        "reference for every well-formed expression shape up to the stated size and every truth assignment.",
        "Evaluator and encoding side only; the parser-side compiler (parse_switch_case_bool) and the do_action hand-off/fork are outside.",
        "DESIGN.md C10"),
    "C17": (
        "Lazy tap-dance: WaitingState::tick_wt/handle_tap_dance vs a reference (count, firing conditions, chosen action, queue afterwards, timeout "
        "restart) for every queue of <= 3 (thorough 4) events and 1..3 actions; eager tap-dance timer invariants.",
        "Assumes a non-empty action list. The eager path through dequeue/do_action is outside.",
        "DESIGN.md C17"),
}

CLAIMS.update({
    "C02": (
        "Panic-freedom obligations (Kani instruments every reachable panic, overflow, out-of-bounds index, unwrap on None) for run-time kernels fed "
        "arbitrary, including physically impossible, pre-states: switch evaluation at every expression shape up to the stated size and at the maximum "
        "nesting depth the parser accepts, opcode decoding, one-shot ring overflow, tap-dance with an empty action list (accepted by the parser).",
        "Every harness of every other property is also a panic-freedom obligation for the code it reaches; only the dedicated ones are run here. "
        "Hangs, stack depth and the parser front end are not decided. Arithmetic overflow is checked under dev-profile semantics.",
        "DESIGN.md C02"),
    "C04": (
        "Layer search order (current_layer, active_held_layers, trans_resolution_layer_order) and transparent resolution (resolve_coord) against the "
        "documented order for symbolic held-layer sets, base layers, both resolution settings and delegation on/off; release-by-coordinate step (shared with C01).",
        "Read-only kernels on a Layout with 4 symbolic states / a 4-layer symbolic table, plus do_action step kernels with a constant action per harness "
        "(key, output chord, layer-while-held, layer-switch, no-op; clear-on-next-action sweep). The press path with a symbolic layer stack, multi/fork, the FIFO/tick "
        "orchestration, table construction in the parser and OS emission are outside.",
        "DESIGN.md C04"),
    "C07": (
        "Keyberon half of the idle predicate: (a) from a chords-v2 state satisfying is_idle_chv2() && accepts_chords_chv2(), with every other field symbolic, one tick_chv2 forwards nothing "
        "and stays idle; (b) Layout::tick() from an idle layout (the layout conjuncts of Kanata::is_idle) with symbolic scalar leftovers emits nothing, creates nothing and stays idle, twice.",
        "The kanata half (Kanata::is_idle itself, tick_states, wall-clock conversion, the threaded loop) and 'later input is handled the same' are NOT decided. Partial claim.",
        "DESIGN.md C07"),
    "C08": (
        "One macro step per tick: process_sequences from a state with one active macro (symbolic pending delay, symbolically chosen next item) performs exactly one of "
        "delay countdown / tapped-key release / one list item; press adds exactly its key, release removes exactly the macro-held instances of its key, complete ends, finished macros are not re-queued.",
        "Also: a macro's custom/unicode item is never lost when another custom event occupies the tick (process_sequence_custom), and do_action(Sequence) queues the macro once. "
        "Macro expansion in the parser, cancellation (kernels parked: out of memory) and the 4-slot ring eviction are outside.",
        "DESIGN.md C08"),
    "C11": (
        "For every u16: OsCode::from_u16/as_u16 are inverse, the transmute to the internal KeyCode yields a declared variant with the same numeric value (checked with "
        "-Z valid-value-checks) and converts back to the same OsCode; modifier classification is exactly the 8 modifier codes. "
        "The reserved no-op codes nop0..nop9 reach no output-device method on any of the three output paths (write_key = OS repeat path, press_key, release_key), every other known code "
        "reaches exactly one with the same numeric value (device methods and post_filter_* are recording stubs).",
        "Linux tables (this sandbox's target). Key names (str_to_oscode), the defsrc identity layer (thorough tier only), the uinput device itself and the mapped-key set are outside.",
        "DESIGN.md C11"),
    "C12": (
        "Only the modifier/overlap bit encoding used for sequence keys: masks never touch the key-code bits, classes have distinct single bits, every key code fits below them "
        "(for every pair of OS codes).",
        "The ambiguity rejection (patricia trie) and the run-time sequence state machine are NOT decided (heap-bound / need a Kanata value); partial claim for the encoding lemma.",
        "DESIGN.md C12"),
    "C13": (
        "mask_for_key is injective on the 8 modifiers (every pair of OS codes); mark_overridden_nonmodkeys_for_eager_erasure marks exactly the NormalKey states of removed "
        "non-modifier keys, for symbolic removed sets and states.",
        "The key-list transformation override_keys/update_keys (FxHashMap + Vec) did not finish under CBMC (measured) and is NOT decided; partial claim.",
        "DESIGN.md C13"),
    "C18": (
        "handle_fakekey_action for press / release / tap / toggle on a Layout with symbolic states: queues exactly the documented events; toggle = release iff a state "
        "created at the virtual key's coordinate exists (states_has_coord vs its definition).",
        "Timed forms (hold-for-duration, on-idle) and the TCP path need a Kanata value and are outside.",
        "DESIGN.md C18"),
})

CLAIMS["C19"] = (
    "Only the record/stop bookkeeping step: ending a recording that has seen no key event (stop, re-record with the same id, record with another id) "
    "never panics and saves an empty macro; decided for symbolic ids, elapsed ticks and truncation counts.",
    "The replay-equals-typing clause, recording with events (FxHashSet / Vec with symbolic keys did not finish in the design phase), the size limit and the recursion guard are NOT decided. Partial claim.",
    "DESIGN.md C19")

CLAIMS["C03"] = (
    "Only the lexer: Lexer::next_token over every ASCII text of length <= 2 (quick) / <= 3 and <= 4 (thorough), whitespace and comments kept as tokens (the skipping mode, which only adds `continue`s around the same token code, did not finish and is parked): "
    "never panics, every token is non-empty and ends inside the text, tokens tile the input (spans lie inside the file), it stops only at the end of the text and "
    "terminates within one call per byte.",
    "The tree builder, every sub-parser of the configuration language and diagnostic rendering are NOT decided: they work on heap data (Vec<SExpr>, Rc<str>, hash maps) "
    "that CBMC does not get through, and any harness reaching parser::cfg::alloc::Allocations crashes the Kani compiler. Multi-byte characters are outside the harness. Partial claim for the lexer clause.",
    "DESIGN.md C03")

NOT_APPLICABLE = {
    "C14": "the key-output table builder (create_key_outputs / add_key_output_from_action_to_key_pos) fills an FxHashMap<OsCode, Vec<OsCode>> and the repeat lookup needs a Kanata value; hashbrown code does not finish under CBMC even for concrete two-entry tables (measured on Overrides::update_keys, 25 min in symbolic execution), so no kernel decides a clause of this property",
    "C15": "live reload is file I/O + the whole parser on two configurations + TCP notifications + a relational comparison of two whole executions; no bounded kernel of it can be encoded for CBMC (DESIGN.md 'Not applicable')",
    "C16": "a relation between two complete parses of two program texts; the parser (heap, Rc<str>, hash maps) cannot be executed symbolically within reach (measured: sexpr::parse on 4 symbolic bytes does not finish in 25 min) and running it on concrete rewritten texts would be testing, not solver-based checking",
    "C20": "zch_press_key lives behind a global Mutex, Arc-shared follow-up maps and the output device; correctness is a text-buffer simulation over whole typing histories; no kernel decides any clause of the property",
}
PENDING_REASON = "no solver-based check registered yet in this revision (kernels planned in DESIGN.md; listed here rather than claimed until a harness finishes within the caps)"


def main():
    reg = run.load_registry()
    props = [json.loads(l)["id"] for l in open(os.path.join(VERIF, "properties.jsonl"))]
    have = {p for h in reg for p in h.props}
    checks = []
    na = []
    for p in props:
        if p in CLAIMS and p in have:
            text, note, ref = CLAIMS[p]
            checks.append({
                "property_id": p,
                "quick_cmd": f"./check {p} --tier quick",
                "thorough_cmd": f"./check {p} --tier thorough",
                "evidence_file": f"/verif/evidence/{p}.json",
                "replay_cmd_template": f"./check {p} --replay {{path}}",
                "engine": "kani-kernels",
                "level_claimed": {"category": "model_checking", "text": text, "design_ref": ref},
                "level_note": note,
                "technique": TECH,
            })
        else:
            na.append({"property_id": p, "reason": NOT_APPLICABLE.get(p, PENDING_REASON)})
    man = {
        "version": 1,
        "setup_cmd": "./check --setup",
        "hooks": {
            "guard": "none (cfg(kani) child modules are appended to a scratch mirror of /repo; /repo itself carries no hooks)",
            "enable": "engine/run.py copies /repo's working tree to a scratch dir and appends `#[cfg(kani)] pub(crate) mod verif_kani { use super::*; include!(<harness>); }` to the mirrored source files; cargo kani sets cfg(kani)",
            "baseline_off_cmd": "cd /repo && cargo test --workspace --no-fail-fast --offline",
            "source_commits": [],
            "add_only": True,
        },
        "engines": [{
            "name": "kani-kernels",
            "path": "/verif/engine/run.py",
            "serves_properties": [c["property_id"] for c in checks],
            "kind_free_text": "Kani 0.68 proof harnesses (kani::any inputs, #[kani::unwind], kani::cover vacuity witnesses) over the real private functions, "
                              "CBMC 6.11 + CaDiCaL back end; JSON export parsed; counterexamples replayed natively with `cargo kani playback` (dev profile)",
        }],
        "checks": checks,
        "not_applicable": na,
        "notes": "Exit codes of ./check: 0 = all selected harnesses proved within their bounds and every cover witness satisfied; 1 = reproduced violation "
                 "(VIOLATION line); 2 = inconclusive (timeout / out of memory / build error / counterexample not reproduced natively / vacuous harness).",
    }
    with open(os.path.join(VERIF, "MANIFEST.json"), "w") as fh:
        json.dump(man, fh, indent=1)
    print(f"MANIFEST.json: {len(checks)} checks, {len(na)} not applicable")


if __name__ == "__main__":
    main()
