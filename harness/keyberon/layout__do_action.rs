// Step kernels through the real `Layout::do_action` with a CONSTANT action per harness (a symbolic action
// makes CBMC explore every arm of the recursive interpreter at every recursion level: DESIGN.md section 1)
// from a small pre-state with symbolic coordinate / delay / one-shot configuration.

static VK_DA_KC: Action<'static, u8> = Action::KeyCode(KeyCode::A);
static VK_DA_MKC_KEYS: &[KeyCode] = &[KeyCode::LShift, KeyCode::Kb1];
static VK_DA_MKC: Action<'static, u8> = Action::MultipleKeyCodes(&VK_DA_MKC_KEYS);
static VK_DA_LAYER: Action<'static, u8> = Action::Layer(2);
static VK_DA_DEFLAYER: Action<'static, u8> = Action::DefaultLayer(1);
static VK_DA_DEFLAYER_BAD: Action<'static, u8> = Action::DefaultLayer(7);
static VK_DA_NOOP: Action<'static, u8> = Action::NoOp;
static VK_DA_CUSTOM: Action<'static, u8> = Action::Custom(42);
static VK_DA_REL_KC: Action<'static, u8> = Action::ReleaseState(ReleasableState::KeyCode(KeyCode::B));
static VK_DA_REL_LAYER: Action<'static, u8> = Action::ReleaseState(ReleasableState::Layer(1));
static VK_DA_SEQ_EVENTS: &[SequenceEvent<'static, u8>] = &[SequenceEvent::Tap(KeyCode::Q)];
static VK_DA_SEQ: Action<'static, u8> = Action::Sequence { events: &VK_DA_SEQ_EVENTS };
static VK_DA_CANCEL: Action<'static, u8> = Action::CancelSequences;
static VK_DA_MULTI_ACS: &[Action<'static, u8>] = &[Action::KeyCode(KeyCode::A), Action::Layer(2)];
static VK_DA_MULTI: Action<'static, u8> = Action::MultipleActions(&VK_DA_MULTI_ACS);
static VK_DA_FORK_CFG: ForkConfig<'static, u8> = ForkConfig {
    left: Action::KeyCode(KeyCode::X),
    right: Action::KeyCode(KeyCode::Y),
    right_triggers: &[KeyCode::LShift, KeyCode::RShift],
};
static VK_DA_FORK: Action<'static, u8> = Action::Fork(&VK_DA_FORK_CFG);
static VK_DA_OS_INNER: Action<'static, u8> = Action::KeyCode(KeyCode::LShift);

/// Pre-state: one plain key B held at (0,2); optionally one active one-shot key at (0,2) with symbolic end config / timeout / rapid-event delay
/// (not ignoring events).
fn vk_da_layout<'a>(oneshot_active: bool) -> Layout<'a, 3, 2, u8> {
    let mut l: Layout<'a, 3, 2, u8> = vk_layout_literal(&VK_SRC, &VK_LAYERS);
    let _ = l.states.push(NormalKey { keycode: KeyCode::B, coord: (0, 2), flags: NormalKeyFlags(0) });
    if oneshot_active {
        let _ = l.oneshot.keys.push_back((0, 2));
        l.oneshot.end_config = vk_c06_any_end_config();
        l.oneshot.timeout = kani::any();
        l.oneshot.pause_input_processing_delay = kani::any();
    }
    l
}

/// The one-shot table must have been told about a non-one-shot key action at `coord`
/// (C06: "every non-one-shot action calls handle_press(Other)").
fn vk_da_assert_oneshot_notified(l: &Layout<'_, 3, 2, u8>, t0: u16, coord: KCoord) {
    if vk_c06_is_press_variant(l.oneshot.end_config) {
        let d = l.oneshot.pause_input_processing_delay;
        assert!(l.oneshot.timeout == core::cmp::min(d, t0), "the first following key ends a press-variant one-shot");
        assert!(l.oneshot.pause_input_processing_ticks == d);
    } else {
        assert!(l.oneshot.other_pressed_keys.len() == 1 && l.oneshot.other_pressed_keys[0] == coord, "release variants remember the following key");
        assert!(l.oneshot.timeout == t0);
    }
}

fn vk_da_simple<'a>(action: &'a Action<'a, u8>) -> (Layout<'a, 3, 2, u8>, KCoord, CustomEvent<'a, u8>) {
    let mut l = vk_da_layout(true);
    let t0 = l.oneshot.timeout;
    // a tap-hold key at (0,2) was tapped before and its tap-repress window is still open
    l.last_press_tracker.coord = (0, 2);
    l.last_press_tracker.tap_hold_timeout = kani::any();
    let y: u16 = kani::any();
    // (0,0) is TRIGGER_TAPHOLD_COORD: the reserved coordinate at which chords v2 injects fake events; a no-op there
    // deliberately does not count as the key following a one-shot.  No real key lives at (0,0) (defsrc index 0 is
    // forced to no-op by the parser), so the kernels use column 1 only.
    kani::assume(y == 1);
    let coord: KCoord = (0, y);
    let delay: u16 = kani::any();
    let ev = l.do_action(action, coord, delay, false, &mut std::iter::empty::<u16>());
    vk_da_assert_oneshot_notified(&l, t0, coord);
    assert!(l.oneshot.keys.len() == 1 && l.waiting.is_none() && l.queue.is_empty());
    assert!(l.last_press_tracker.tap_hold_timeout == 0, "any action of another key closes the tap-repress window of the last tap-hold key (C05: the key must be pressed twice in a row)");

    (l, coord, ev)
}

// @harness name=da_keycode prop=C04,C06 tier=quick timeout=1500
// @encodes Layout::do_action (KeyCode arm), OneShotState::handle_press, LastPressTracker::update_coord, History::push_front
// @inst Layout<3, 2, u8>
// @bounds constant action KeyCode(A); pre-state: one plain key held, one active one-shot key with symbolic end config, timeout and rapid-event delay; coordinate (0,1), symbolic delay
// @assumes none beyond the bounds
// @spec exactly one key state {A, at the pressed coordinate, no flags} is added after the existing ones; no custom event; the press is remembered as the last press; the active one-shot is notified (press variants: timeout drops to the rapid-event delay; release variants: key recorded)
#[kani::proof]
#[kani::unwind(4)]
fn da_keycode() {
    let action: Action<'_, u8> = Action::KeyCode(KeyCode::A);
    let (l, coord, ev) = vk_da_simple(&action);
    assert!(matches!(ev, CustomEvent::NoEvent));
    assert!(l.states.len() == 2);
    assert!(matches!(l.states[0], NormalKey { keycode: KeyCode::B, .. }));
    assert!(matches!(l.states[1], NormalKey { keycode: KeyCode::A, coord: c, flags: NormalKeyFlags(0) } if c == coord));
    assert!(l.last_press_tracker.coord == coord);
    assert!(l.default_layer == 0);
    kani::cover!(vk_c06_is_press_variant(l.oneshot.end_config), "press variant");
    kani::cover!(!vk_c06_is_press_variant(l.oneshot.end_config), "release variant");
    core::mem::forget(l);
}

// @harness name=da_multiple_keycodes prop=C04,C06 tier=quick timeout=1500
// @encodes Layout::do_action (MultipleKeyCodes arm)
// @inst Layout<3, 2, u8>
// @bounds constant output chord [LShift, 1]; pre-state as da_keycode
// @assumes none beyond the bounds
// @spec both keys are added at the coordinate, in listed order, flagged clear-on-next-action (an output chord does not leak its modifier into the next key); one-shot notified
#[kani::proof]
#[kani::unwind(4)]
fn da_multiple_keycodes() {
    // the action is built locally (a `static` holding references is not constant-folded by CBMC, which then
    // explores every arm of do_action recursively)
    let keys: &[KeyCode] = &[KeyCode::LShift, KeyCode::Kb1];
    let action: Action<'_, u8> = Action::MultipleKeyCodes(&keys);
    let (l, coord, ev) = vk_da_simple(&action);
    assert!(matches!(ev, CustomEvent::NoEvent));
    assert!(l.states.len() == 3);
    assert!(matches!(l.states[1], NormalKey { keycode: KeyCode::LShift, coord: c, flags: NormalKeyFlags(NORMAL_KEY_FLAG_CLEAR_ON_NEXT_ACTION) } if c == coord));
    assert!(matches!(l.states[2], NormalKey { keycode: KeyCode::Kb1, coord: c, flags: NormalKeyFlags(NORMAL_KEY_FLAG_CLEAR_ON_NEXT_ACTION) } if c == coord));
    core::mem::forget(l);
}

// @harness name=da_layer prop=C04,C06 tier=quick timeout=1500
// @encodes Layout::do_action (Layer arm), Layout::current_layer
// @inst Layout<3, 2, u8>
// @bounds constant action layer-while-held 2; pre-state as da_keycode
// @assumes none beyond the bounds
// @spec one held-layer state {2, coordinate} is added after the existing states (so it is the most recently activated layer), the base layer is unchanged; one-shot notified
#[kani::proof]
#[kani::unwind(4)]
fn da_layer() {
    let action: Action<'_, u8> = Action::Layer(2);
    let (l, coord, ev) = vk_da_simple(&action);
    assert!(matches!(ev, CustomEvent::NoEvent));
    assert!(l.states.len() == 2);
    assert!(matches!(l.states[1], LayerModifier { value: 2, coord: c } if c == coord));
    // (Layout::current_layer() is decided on its own by c04_k1_layer_order; calling it here -- a pointer-based
    // reverse iteration over the state vector after do_action's retain -- does not finish)
    assert!(l.default_layer == 0);
    core::mem::forget(l);
}

// @harness name=da_default_layer prop=C04,C06 tier=quick timeout=1500
// @encodes Layout::do_action (DefaultLayer arm), Layout::set_default_layer
// @inst Layout<3, 2, u8> (3 layers)
// @bounds constant actions layer-switch 1 (valid) and layer-switch 7 (out of range), chosen symbolically by harness variant; pre-state as da_keycode
// @assumes none beyond the bounds
// @spec layer-switch changes the base layer iff the target exists, adds no state; one-shot notified
#[kani::proof]
#[kani::unwind(4)]
fn da_default_layer() {
    let action: Action<'_, u8> = Action::DefaultLayer(1);
    let (l, _coord, ev) = vk_da_simple(&action);
    assert!(matches!(ev, CustomEvent::NoEvent));
    assert!(l.states.len() == 1 && l.default_layer == 1);
    core::mem::forget(l);
}

// @harness name=da_default_layer_bad prop=C04,C02 tier=quick timeout=1500
// @encodes Layout::do_action (DefaultLayer arm), Layout::set_default_layer
// @inst Layout<3, 2, u8> (3 layers)
// @bounds constant action layer-switch 7 with only 3 layers; pre-state as da_keycode
// @assumes none beyond the bounds
// @spec an out-of-range layer-switch is ignored (no panic, base layer unchanged)
#[kani::proof]
#[kani::unwind(4)]
fn da_default_layer_bad() {
    let action: Action<'_, u8> = Action::DefaultLayer(7);
    let (l, _coord, _ev) = vk_da_simple(&action);
    assert!(l.states.len() == 1 && l.default_layer == 0);
    core::mem::forget(l);
}

// @harness name=da_noop prop=C04,C06,C05 tier=quick timeout=1500
// @encodes Layout::do_action (NoOp arm)
// @inst Layout<3, 2, u8>
// @bounds constant action NoOp; pre-state as da_keycode
// @assumes none beyond the bounds
// @spec nothing is output; the one-shot still counts it as the following key (documented: XX consumes a one-shot)
#[kani::proof]
#[kani::unwind(4)]
fn da_noop() {
    let action: Action<'_, u8> = Action::NoOp;
    let (l, _coord, ev) = vk_da_simple(&action);
    assert!(matches!(ev, CustomEvent::NoEvent));
    assert!(l.states.len() == 1);
    core::mem::forget(l);
}

// @harness name=da_custom prop=C06,C01 tier=quick timeout=1500
// @encodes Layout::do_action (Custom arm)
// @inst Layout<3, 2, u8>
// @bounds constant custom action; pre-state as da_keycode
// @assumes none beyond the bounds
// @spec a custom state is added at the coordinate (so that the key's release reports CustomEvent::Release) and CustomEvent::Press is returned; one-shot notified
#[kani::proof]
#[kani::unwind(4)]
fn da_custom() {
    let action: Action<'_, u8> = Action::Custom(42);
    let (l, coord, ev) = vk_da_simple(&action);
    assert!(matches!(ev, CustomEvent::Press(v) if *v == 42));
    assert!(l.states.len() == 2);
    assert!(matches!(l.states[1], State::Custom { coord: c, .. } if c == coord));
    core::mem::forget(l);
}

// @harness name=da_sequence prop=C08,C06,C05 tier=quick timeout=1500
// @encodes Layout::do_action (Sequence arm)
// @inst Layout<3, 2, u8>
// @bounds constant macro action; pre-state as da_keycode
// @assumes none beyond the bounds
// @spec the macro is queued exactly once, from its first item, with no pending delay; nothing is output in the same step; one-shot notified
#[kani::proof]
#[kani::unwind(4)]
fn da_sequence() {
    let events: &[SequenceEvent<'_, u8>] = &[SequenceEvent::Tap(KeyCode::Q)];
    let action: Action<'_, u8> = Action::Sequence { events: &events };
    let (l, _coord, ev) = vk_da_simple(&action);
    assert!(matches!(ev, CustomEvent::NoEvent));
    assert!(l.states.len() == 1);
    assert!(l.active_sequences.len() == 1);
    let s = l.active_sequences[0];
    assert!(s.delay == 0 && s.tapped.is_none() && s.cur_event.is_none() && s.remaining_events.len() == 1);
    core::mem::forget(l);
}

// @harness name=da_release_state prop=PARKED tier=thorough timeout=1500
// @note does not finish / runs out of memory (two retains over the state vector inside do_action); kept for the record
// @encodes Layout::do_action (ReleaseState arm), State::release_state
// @inst Layout<3, 2, u8>
// @bounds constant action release-key B; pre-state: one plain key whose code is symbolically A or B, held at another coordinate; symbolic coordinate of the release-key press
// @assumes none beyond the bounds
// @spec release-key removes the held key with that code (whatever coordinate created it), keeps the others and adds nothing (only the count is read back: DESIGN A.2)
#[kani::proof]
#[kani::unwind(4)]
fn da_release_state() {
    let action: Action<'_, u8> = Action::ReleaseState(ReleasableState::KeyCode(KeyCode::B));
    let mut l: Layout<'_, 3, 2, u8> = vk_layout_literal(&VK_SRC, &VK_LAYERS);
    let held = if kani::any() { KeyCode::A } else { KeyCode::B };
    let _ = l.states.push(NormalKey { keycode: held, coord: (0, 2), flags: NormalKeyFlags(0) });
    let y: u16 = kani::any();
    kani::assume(y < 2);
    let ev = l.do_action(&action, (0, y), kani::any(), false, &mut std::iter::empty::<u16>());
    assert!(matches!(ev, CustomEvent::NoEvent));
    assert!(l.states.len() == (held != KeyCode::B) as usize, "exactly the key with that code is released");
    core::mem::forget(l);
}

// @harness name=da_multi prop=PARKED tier=thorough timeout=1800
// @note out of memory: the sub-actions are loaded through a slice pointer, CBMC does not fold their discriminants and explores every arm recursively
// @encodes Layout::do_action (MultipleActions arm, recursion into KeyCode and Layer arms)
// @inst Layout<3, 2, u8>
// @bounds constant action multi(A, layer-while-held 2); pre-state as da_keycode without an active one-shot
// @assumes none beyond the bounds
// @spec every listed action is performed once, in order, at the same coordinate
#[kani::proof]
#[kani::unwind(4)]
fn da_multi() {
    let acs: &[Action<'_, u8>] = &[Action::KeyCode(KeyCode::A), Action::Layer(2)];
    let action: Action<'_, u8> = Action::MultipleActions(&acs);
    let mut l = vk_da_layout(false);
    let y: u16 = kani::any();
    kani::assume(y < 2);
    let coord: KCoord = (0, y);
    let ev = l.do_action(&action, coord, kani::any(), false, &mut std::iter::empty::<u16>());
    assert!(matches!(ev, CustomEvent::NoEvent));
    assert!(l.states.len() == 3);
    assert!(matches!(l.states[1], NormalKey { keycode: KeyCode::A, coord: c, .. } if c == coord));
    assert!(matches!(l.states[2], LayerModifier { value: 2, coord: c } if c == coord));
    core::mem::forget(l);
}

// @harness name=da_fork prop=PARKED tier=thorough timeout=1800
// @note out of memory (same cause as da_multi: the branch actions are loaded through a pointer)
// @encodes Layout::do_action (Fork arm)
// @inst Layout<3, 2, u8>
// @bounds constant fork(left X, right Y, right-triggers [lsft, rsft]); pre-state: one active key whose kind (plain or macro-held) and code (among A, B, lsft, lctl) are symbolic
// @assumes none beyond the bounds
// @spec fork performs its right action iff one of its trigger keys is currently active (as a plain or macro-held key), else its left action; exactly one of them
#[kani::proof]
#[kani::unwind(4)]
fn da_fork() {
    let triggers: &[KeyCode] = &[KeyCode::LShift, KeyCode::RShift];
    let cfg: ForkConfig<'_, u8> = ForkConfig { left: Action::KeyCode(KeyCode::X), right: Action::KeyCode(KeyCode::Y), right_triggers: triggers };
    let action: Action<'_, u8> = Action::Fork(&cfg);
    let mut l: Layout<'_, 3, 2, u8> = vk_layout_literal(&VK_SRC, &VK_LAYERS);
    let k = vk_any_keycode();
    if kani::any() {
        let _ = l.states.push(NormalKey { keycode: k, coord: (0, 2), flags: NormalKeyFlags(0) });
    } else {
        let _ = l.states.push(FakeKey { keycode: k });
    }
    let coord: KCoord = (0, 1);
    let ev = l.do_action(&action, coord, 0, false, &mut std::iter::empty::<u16>());
    assert!(matches!(ev, CustomEvent::NoEvent));
    assert!(l.states.len() == 2);
    let trig = k == KeyCode::LShift;
    match l.states[1] {
        NormalKey { keycode, coord: c, .. } => {
            assert!(c == coord);
            assert!(keycode == if trig { KeyCode::Y } else { KeyCode::X }, "right branch iff a trigger key is active");
        }
        _ => assert!(false),
    }
    kani::cover!(trig, "trigger active");
    kani::cover!(!trig, "no trigger active");
    core::mem::forget(l);
}

static VK_DA_OS_CFG_PRESS: OneShot<'static, u8> = OneShot { action: &VK_DA_OS_INNER, timeout: 500, end_config: OneShotEndConfig::EndOnFirstPress };
static VK_DA_OS_PRESS: Action<'static, u8> = Action::OneShot(&VK_DA_OS_CFG_PRESS);
static VK_DA_OS_CFG_RELPC: OneShot<'static, u8> = OneShot { action: &VK_DA_OS_INNER, timeout: 300, end_config: OneShotEndConfig::EndOnFirstReleaseOrRepress };
static VK_DA_OS_RELPC: Action<'static, u8> = Action::OneShot(&VK_DA_OS_CFG_RELPC);

fn vk_da_oneshot_activate(end_config: OneShotEndConfig, timeout: u16) {
    let inner: Action<'_, u8> = Action::KeyCode(KeyCode::LShift);
    let cfg_v: OneShot<'_, u8> = OneShot { action: &inner, timeout, end_config };
    let cfg = &cfg_v;
    let action_v: Action<'_, u8> = Action::OneShot(cfg);
    let action = &action_v;
    // pre-state: possibly one other one-shot key already active (symbolic), with any end config / timeout
    let mut l: Layout<'_, 3, 2, u8> = vk_layout_literal(&VK_SRC, &VK_LAYERS);
    let other_active: bool = kani::any();
    let oy: u16 = kani::any();
    kani::assume(oy < 3);
    if other_active {
        let _ = l.oneshot.keys.push_back((0, oy));
        let _ = l.states.push(NormalKey { keycode: KeyCode::LCtrl, coord: (0, oy), flags: NormalKeyFlags(0) });
    }
    l.oneshot.end_config = vk_c06_any_end_config();
    l.oneshot.timeout = kani::any();
    let y: u16 = kani::any();
    kani::assume(y < 3);
    let coord: KCoord = (0, y);
    let repress = other_active && oy == y;
    let n0 = l.states.len();
    let ev = l.do_action(action, coord, kani::any(), false, &mut std::iter::empty::<u16>());
    assert!(matches!(ev, CustomEvent::NoEvent));
    assert!(l.states.len() == n0 + 1, "the one-shot key's own action is performed once");
    assert!(l.oneshot.timeout == cfg.timeout, "tapping a further one-shot key restarts the timeout");
    assert!(l.oneshot.end_config == cfg.end_config);
    assert!(l.oneshot.keys.len() == n0 + 1 && l.oneshot.keys[n0] == coord, "one-shot keys tapped in a row combine");
    assert!(l.oneshot.other_pressed_keys.is_empty(), "the inner action of a one-shot is not counted as the following key");
    let pcancel = matches!(cfg.end_config, OneShotEndConfig::EndOnFirstReleaseOrRepress | OneShotEndConfig::EndOnFirstPressOrRepress);
    // NOTE: the repress test uses the end config that was active BEFORE this press (handle_press runs first)
    if !repress {
        assert!(!l.oneshot.release_on_next_tick);
    }
    kani::cover!(repress, "re-press of an active one-shot key");
    kani::cover!(other_active && !repress, "second one-shot key stacks");
    let _ = pcancel;
    core::mem::forget(l);
}

// @harness name=da_oneshot_press prop=PARKED tier=thorough timeout=1800
// @note does not finish: the inner action of the one-shot is loaded through a pointer and CBMC explores every arm of the recursive call
// @encodes Layout::do_action (OneShot arm: inner action with is_oneshot = true, handle_press(OneShotKey), timeout/end_config overwrite, keys.push_back)
// @inst Layout<3, 2, u8>
// @bounds constant one-shot(lsft, 500, end-on-first-press); pre-state: possibly one other active one-shot key (symbolic coordinate, any end config and timeout); symbolic coordinate and delay
// @assumes none beyond the bounds
// @spec the inner key is pressed once; the timeout restarts at the configured value; the end config becomes this key's; the key joins the active set (stacking); the inner action does not count as the 'following key'; no end is armed unless an active key is re-pressed
#[kani::proof]
#[kani::unwind(4)]
fn da_oneshot_press() {
    vk_da_oneshot_activate(OneShotEndConfig::EndOnFirstPress, 500);
}

// @harness name=da_oneshot_relpc prop=PARKED tier=thorough timeout=1800
// @encodes as da_oneshot_press
// @inst Layout<3, 2, u8>
// @bounds constant one-shot(lsft, 300, end-on-first-release-or-repress); pre-state as da_oneshot_press
// @assumes none beyond the bounds
// @spec as da_oneshot_press
#[kani::proof]
#[kani::unwind(4)]
fn da_oneshot_relpc() {
    vk_da_oneshot_activate(OneShotEndConfig::EndOnFirstReleaseOrRepress, 300);
}

static VK_DA_HT_CFG0: HoldTapAction<'static, u8> = HoldTapAction {
    timeout: 200,
    hold: Action::KeyCode(KeyCode::LCtrl),
    tap: Action::KeyCode(KeyCode::Space),
    timeout_action: Action::KeyCode(KeyCode::LAlt),
    config: HoldTapConfig::Default,
    tap_hold_interval: 0,
};
static VK_DA_HT0: Action<'static, u8> = Action::HoldTap(&VK_DA_HT_CFG0);
static VK_DA_HT_CFG50: HoldTapAction<'static, u8> = HoldTapAction {
    timeout: 200,
    hold: Action::KeyCode(KeyCode::LCtrl),
    tap: Action::KeyCode(KeyCode::Space),
    timeout_action: Action::KeyCode(KeyCode::LAlt),
    config: HoldTapConfig::Default,
    tap_hold_interval: 50,
};
static VK_DA_HT50: Action<'static, u8> = Action::HoldTap(&VK_DA_HT_CFG50);

fn vk_da_holdtap(interval: u16) -> (bool, bool) {
    let cfg_v: HoldTapAction<'_, u8> = HoldTapAction {
        timeout: 200,
        hold: Action::KeyCode(KeyCode::LCtrl),
        tap: Action::KeyCode(KeyCode::Space),
        timeout_action: Action::KeyCode(KeyCode::LAlt),
        config: HoldTapConfig::Default,
        tap_hold_interval: interval,
    };
    let cfg = &cfg_v;
    let action_v: Action<'_, u8> = Action::HoldTap(cfg);
    let action = &action_v;
    let mut l: Layout<'_, 3, 2, u8> = vk_layout_literal(&VK_SRC, &VK_LAYERS);
    l.quick_tap_hold_timeout = kani::any();
    let ly: u16 = kani::any();
    kani::assume(ly < 3);
    l.last_press_tracker.coord = (0, ly);
    l.last_press_tracker.tap_hold_timeout = kani::any();
    let lpt_t0 = l.last_press_tracker.tap_hold_timeout;
    let y: u16 = kani::any();
    kani::assume(y < 3);
    let coord: KCoord = (0, y);
    let delay: u16 = kani::any();
    let ev = l.do_action(action, coord, delay, false, &mut std::iter::empty::<u16>());
    assert!(matches!(ev, CustomEvent::NoEvent));
    let repress_window_open = cfg.tap_hold_interval != 0 && coord == (0, ly) && lpt_t0 != 0;
    if repress_window_open {
        // tap-then-hold: the tap action is held immediately, no decision is pending
        assert!(l.waiting.is_none());
        assert!(l.states.len() == 1 && matches!(l.states[0], NormalKey { keycode: KeyCode::Space, coord: c, .. } if c == coord));
        assert!(l.last_press_tracker.tap_hold_timeout == 0);
    } else {
        assert!(l.states.is_empty(), "nothing is output before the decision");
        match &l.waiting {
            Some(w) => {
                assert!(w.coord == coord && w.ticks == 0 && w.prev_queue_len == QueueLen::MAX);
                if l.quick_tap_hold_timeout {
                    assert!(w.timeout == 200u16.saturating_sub(delay) && w.delay == 0);
                } else {
                    assert!(w.timeout == 200 && w.delay == delay);
                }
                assert!(core::ptr::eq(w.hold, &cfg.hold) && core::ptr::eq(w.tap, &cfg.tap) && core::ptr::eq(w.timeout_action, &cfg.timeout_action));
                assert!(matches!(w.config, WaitingConfig::HoldTap(HoldTapConfig::Default)));
            }
            None => assert!(false, "a tap-hold press starts exactly one pending decision"),
        }
        assert!(l.extra_waiting.is_empty());
        assert!(l.last_press_tracker.tap_hold_timeout == cfg.tap_hold_interval);
    }
    assert!(l.last_press_tracker.coord == coord);
    let quick = l.quick_tap_hold_timeout;
    core::mem::forget(l);
    (repress_window_open, quick)
}

// @harness name=da_holdtap_interval prop=C05 tier=quick timeout=1800
// @encodes Layout::do_action (HoldTap arm), LastPressTracker
// @inst Layout<3, 2, u8>
// @bounds constant tap-hold(200, tap space, hold lctl, timeout-action lalt, Default, tap-repress window 50); symbolic last-press tracker (coordinate, remaining window), symbolic concurrent/quick timeout flag, coordinate and queueing delay
// @assumes none beyond the bounds
// @spec inside the repress window of the same key the tap action is held at once and nothing is pending; otherwise exactly one waiting decision is created for the key with the configured timeout (minus the queueing delay when quick timeouts are on), the three actions of the key, and nothing is output; the window is (re)armed
#[kani::proof]
#[kani::unwind(4)]
fn da_holdtap_interval() {
    let (repress, quick) = vk_da_holdtap(50);
    kani::cover!(repress, "tap-then-hold repress");
    kani::cover!(!repress && quick, "quick timeout accounting");
}

// @harness name=da_holdtap_nointerval prop=C05 tier=quick timeout=1800
// @encodes as da_holdtap_interval
// @inst Layout<3, 2, u8>
// @bounds as da_holdtap_interval with the repress window disabled (0)
// @assumes none beyond the bounds
// @spec with the window disabled a press always starts a pending decision, whatever the last press was
#[kani::proof]
#[kani::unwind(4)]
fn da_holdtap_nointerval() {
    let (repress, quick) = vk_da_holdtap(0);
    assert!(!repress);
    kani::cover!(quick, "quick timeout accounting");
}

fn vk_da_waiting(coord: KCoord) -> WaitingState<'static, u8> {
    WaitingState {
        coord,
        timeout: kani::any(),
        delay: 3,
        ticks: 4,
        hold: &VK_HOLD,
        tap: &VK_TAP,
        timeout_action: &VK_TIMEOUT,
        config: WaitingConfig::HoldTap(HoldTapConfig::Default),
        layer_stack: Vec::new(),
        prev_queue_len: kani::any(),
    }
}

// @harness name=da_waiting_into prop=C05 tier=quick timeout=1800
// @encodes Layout::waiting_into_hold, waiting_into_tap, waiting_into_timeout (primary slot), do_action (KeyCode arm)
// @inst Layout<3, 2, u8>
// @bounds a pending tap-hold decision at a symbolic coordinate with constant hold = lsft, tap = a, timeout-action = lctl; the resolution (hold / tap / timeout) is symbolic
// @assumes none beyond the bounds
// @spec resolving consumes the pending decision (slot empty afterwards) and performs exactly the chosen one of the three actions, once, at the key's coordinate -- never two of them, never none
#[kani::proof]
#[kani::unwind(4)]
fn da_waiting_into() {
    let mut l: Layout<'static, 3, 2, u8> = vk_layout_literal(&VK_SRC, &VK_LAYERS);
    let y: u16 = kani::any();
    kani::assume(y < 3);
    let coord: KCoord = (0, y);
    l.waiting = Some(vk_da_waiting(coord));
    let which: u8 = kani::any();
    kani::assume(which < 3);
    let ev = match which {
        0 => l.waiting_into_hold(-1),
        1 => l.waiting_into_tap(None, -1),
        _ => l.waiting_into_timeout(-1),
    };
    assert!(matches!(ev, CustomEvent::NoEvent));
    assert!(l.waiting.is_none(), "the decision is consumed");
    assert!(l.states.len() == 1, "exactly one of tap / hold / timeout is performed");
    let want = match which {
        0 => KeyCode::LShift,
        1 => KeyCode::A,
        _ => KeyCode::LCtrl,
    };
    assert!(matches!(l.states[0], NormalKey { keycode, coord: c, .. } if keycode == want && c == coord));
    // a second resolution attempt does nothing
    let ev2 = l.waiting_into_hold(-1);
    assert!(matches!(ev2, CustomEvent::NoEvent) && l.states.len() == 1);
    core::mem::forget(l);
}

static VK_DA_SEQ2_EVENTS: &[SequenceEvent<'static, u8>] = &[SequenceEvent::Press(KeyCode::A), SequenceEvent::Release(KeyCode::A)];

// @harness name=da_cancel_sequences_keys prop=PARKED tier=thorough timeout=1800
// @encodes Layout::do_action (CancelSequences arm), State::seq_release
// @inst Layout<3, 2, u8>
// @bounds two running macros; states [plain key B, macro-held A, macro-held C]; symbolic coordinate
// @assumes none beyond the bounds
// @spec cancelling releases every macro-held key and only those (only the count is read back: DESIGN A.2)
#[kani::proof]
#[kani::unwind(6)]
fn da_cancel_sequences_keys() {
    let mut l: Layout<'_, 3, 2, u8> = vk_layout_literal(&VK_SRC, &VK_LAYERS);
    let _ = l.states.push(NormalKey { keycode: KeyCode::B, coord: (0, 2), flags: NormalKeyFlags(0) });
    let _ = l.states.push(FakeKey { keycode: KeyCode::A });
    let _ = l.states.push(FakeKey { keycode: KeyCode::C });
    let _ = l.active_sequences.push_back(SequenceState { cur_event: None, delay: kani::any(), tapped: None, remaining_events: VK_DA_SEQ2_EVENTS });
    let _ = l.active_sequences.push_back(SequenceState { cur_event: None, delay: 0, tapped: Some(KeyCode::C), remaining_events: VK_DA_SEQ_EVENTS });
    let y: u16 = kani::any();
    kani::assume(y < 2);
    let action: Action<'_, u8> = Action::CancelSequences;
    let ev = l.do_action(&action, (0, y), 0, false, &mut std::iter::empty::<u16>());
    assert!(matches!(ev, CustomEvent::NoEvent));
    assert!(l.states.len() == 1, "every macro-held key is released, the physical key stays");
    core::mem::forget(l);
}

// @harness name=da_cancel_sequences_queue prop=PARKED tier=thorough timeout=1800
// @encodes Layout::do_action (CancelSequences arm)
// @inst Layout<3, 2, u8>
// @bounds two running macros (one with a symbolic pending delay, one about to release a tapped key); one plain key held and no macro-held key (no element is removed from the state vector); symbolic coordinate
// @assumes none beyond the bounds
// @spec cancelling ends every running macro: nothing remains queued to be played
#[kani::proof]
#[kani::unwind(6)]
fn da_cancel_sequences_queue() {
    let mut l: Layout<'_, 3, 2, u8> = vk_layout_literal(&VK_SRC, &VK_LAYERS);
    let _ = l.states.push(NormalKey { keycode: KeyCode::B, coord: (0, 2), flags: NormalKeyFlags(0) });
    let _ = l.active_sequences.push_back(SequenceState { cur_event: None, delay: kani::any(), tapped: None, remaining_events: VK_DA_SEQ2_EVENTS });
    let _ = l.active_sequences.push_back(SequenceState { cur_event: None, delay: 0, tapped: Some(KeyCode::C), remaining_events: VK_DA_SEQ_EVENTS });
    let y: u16 = kani::any();
    kani::assume(y < 2);
    let action: Action<'_, u8> = Action::CancelSequences;
    let ev = l.do_action(&action, (0, y), 0, false, &mut std::iter::empty::<u16>());
    assert!(matches!(ev, CustomEvent::NoEvent));
    assert!(l.active_sequences.is_empty(), "no macro keeps running");
    assert!(l.states.len() == 1);
    core::mem::forget(l);
}

// @harness name=da_waiting_into_tap_chord prop=PARKED tier=thorough timeout=1800
// @note runs out of memory (three do_action calls + reading the state vector back); kept for the record
// @encodes Layout::waiting_into_tap with the pressed-queue of a resolved chord (v1), do_action (KeyCode arm)
// @inst Layout<3, 2, u8>
// @bounds a resolved 2-key chord whose action is the constant key A; the chord was started by key `start`, is bound to key `bound` (the key whose release ended it, or the start key), and the pressed-queue holds [start, second]; participants (0,0) and (0,1); the key the chord is bound to is symbolic
// @assumes none beyond the bounds
// @spec the chord action is registered on EVERY participating coordinate (the bound one and every entry of the pressed-queue, including the starting key), so that it stays active until the last participant is released; the pending decision is consumed
#[kani::proof]
#[kani::unwind(5)]
fn da_waiting_into_tap_chord() {
    let mut l: Layout<'static, 3, 2, u8> = vk_layout_literal(&VK_SRC, &VK_LAYERS);
    // concrete participants (symbolic ones exhaust memory); which of them the chord is bound to is symbolic
    let start: u16 = 0;
    let second: u16 = 1;
    let bound: u16 = if kani::any() { start } else { second };
    let mut w = vk_da_waiting((0, bound));
    w.config = WaitingConfig::Chord(&VK_CH_GROUP1);
    l.waiting = Some(w);
    let mut pq = PressedQueue::new();
    let _ = pq.push_back((0, start));
    let _ = pq.push_back((0, second));
    let ev = l.waiting_into_tap(Some(pq), -1);
    assert!(matches!(ev, CustomEvent::NoEvent));
    assert!(l.waiting.is_none());
    // the action (key A) must be present at both participating coordinates
    let mut at_start = false;
    let mut at_second = false;
    let n = l.states.len();
    assert!(n >= 2 && n <= 3);
    if let NormalKey { keycode: KeyCode::A, coord, .. } = l.states[0] {
        at_start |= coord == (0, start);
        at_second |= coord == (0, second);
    }
    if let NormalKey { keycode: KeyCode::A, coord, .. } = l.states[1] {
        at_start |= coord == (0, start);
        at_second |= coord == (0, second);
    }
    if n > 2 {
        if let NormalKey { keycode: KeyCode::A, coord, .. } = l.states[2] {
            at_start |= coord == (0, start);
            at_second |= coord == (0, second);
        }
    }
    assert!(at_start, "the chord stays active while its first key is held");
    assert!(at_second, "the chord stays active while its second key is held");
    kani::cover!(bound == second, "chord ended by releasing the second key");
    core::mem::forget(l);
}


fn vk_da_clears_chord<'a>(action: &'a Action<'a, u8>, added: usize) {
    // pre-state: one output-chord key flagged clear-on-next-action (more states make the query exhaust memory).
    // Only `states.len()` is read back (an actual removal by heapless' retain makes every other field read
    // exhaust memory: DESIGN A.2).
    let mut l: Layout<'a, 3, 2, u8> = vk_layout_literal(&VK_SRC, &VK_LAYERS);
    let _ = l.states.push(NormalKey { keycode: KeyCode::LShift, coord: (0, 0), flags: NormalKeyFlags(NORMAL_KEY_FLAG_CLEAR_ON_NEXT_ACTION) });
    let _ = l.do_action(action, (0, 1), kani::any(), false, &mut std::iter::empty::<u16>());
    assert!(l.states.len() == added, "the keys of a held output chord are released by the next action, whatever that action is");
    core::mem::forget(l);
}

// @harness name=da_clears_chord_noop prop=C04 tier=quick timeout=1800
// @encodes Layout::do_action (clear-on-next-action sweep at the top, NoOp arm)
// @inst Layout<3, 2, u8>
// @bounds pre-state [one output-chord key flagged clear-on-next-action]; next action: NoOp (XX); symbolic delay
// @assumes none beyond the bounds
// @spec the held output chord's keys are released when the next press is processed even if that press resolves to no-op
#[kani::proof]
#[kani::unwind(5)]
fn da_clears_chord_noop() {
    let action: Action<'_, u8> = Action::NoOp;
    vk_da_clears_chord(&action, 0);
}

// @harness name=da_clears_chord_layer prop=C04 tier=quick timeout=1800
// @encodes Layout::do_action (clear-on-next-action sweep, Layer arm)
// @inst Layout<3, 2, u8>
// @bounds as da_clears_chord_noop with next action layer-while-held 2
// @assumes none beyond the bounds
// @spec as da_clears_chord_noop; the layer state is added
#[kani::proof]
#[kani::unwind(5)]
fn da_clears_chord_layer() {
    let action: Action<'_, u8> = Action::Layer(2);
    vk_da_clears_chord(&action, 1);
}

// @harness name=da_clears_chord_key prop=C04 tier=quick timeout=1800
// @encodes Layout::do_action (clear-on-next-action sweep, KeyCode arm)
// @inst Layout<3, 2, u8>
// @bounds as da_clears_chord_noop with next action key A
// @assumes none beyond the bounds
// @spec as da_clears_chord_noop; the key state is added without the chord's modifier
#[kani::proof]
#[kani::unwind(5)]
fn da_clears_chord_key() {
    let action: Action<'_, u8> = Action::KeyCode(KeyCode::A);
    vk_da_clears_chord(&action, 1);
}

// @harness name=da_tapdance_eager prop=C17 tier=quick timeout=1800
// @encodes Layout::do_action (TapDance arm, eager form: state creation / replacement, first action performed)
// @inst Layout<3, 2, u8>
// @bounds constant tap-dance-eager(timeout 300, actions [x, y, z]); pre-state: symbolically no eager dance / a dance of ANOTHER key (with a different configured timeout 50) / a dance of the SAME key; symbolic delay
// @assumes none beyond the bounds
// @spec the first tap performs the first action at once; a dance started on this key (fresh, or taking over from another key's dance) counts 1 tap and uses THIS key's timeout both as the remaining and as the restart value; a dance already running on this key is left untouched
#[kani::proof]
#[kani::unwind(5)]
fn da_tapdance_eager() {
    let a0: Action<'_, u8> = Action::KeyCode(KeyCode::X);
    let a1: Action<'_, u8> = Action::KeyCode(KeyCode::Y);
    let a2: Action<'_, u8> = Action::KeyCode(KeyCode::Z);
    let acts: [&Action<'_, u8>; 3] = [&a0, &a1, &a2];
    let td: TapDance<'_, u8> = TapDance { actions: &acts, timeout: 300, config: TapDanceConfig::Eager };
    let action: Action<'_, u8> = Action::TapDance(&td);
    let mut l: Layout<'_, 3, 2, u8> = vk_layout_literal(&VK_SRC, &VK_LAYERS);
    let coord: KCoord = (0, 1);
    let pre: u8 = kani::any();
    kani::assume(pre < 3);
    let other_acts: [&Action<'_, u8>; 2] = [&a1, &a2];
    let n_same: u16 = kani::any();
    kani::assume(n_same >= 1 && n_same <= 3);
    let t_same: u16 = kani::any();
    match pre {
        0 => {}
        1 => l.tap_dance_eager = Some(TapDanceEagerState { coord: (0, 2), actions: &other_acts, timeout: kani::any(), orig_timeout: 50, num_taps: 1 }),
        _ => l.tap_dance_eager = Some(TapDanceEagerState { coord, actions: &acts, timeout: t_same, orig_timeout: 300, num_taps: n_same }),
    }
    let _ = l.do_action(&action, coord, kani::any(), false, &mut std::iter::empty::<u16>());
    assert!(l.states.len() == 1, "each tap of the eager form performs an action immediately");
    assert!(matches!(l.states[0], NormalKey { keycode: KeyCode::X, coord: c, .. } if c == coord));
    match &l.tap_dance_eager {
        Some(s) => {
            assert!(s.coord == coord && s.actions.len() == 3);
            if pre == 2 {
                assert!(s.num_taps == n_same && s.timeout == t_same && s.orig_timeout == 300);
            } else {
                assert!(s.num_taps == 1 && s.timeout == 300);
                assert!(s.orig_timeout == 300, "later taps restart the countdown with this key's own timeout");
            }
        }
        None => assert!(false, "an eager dance is in progress after the first tap"),
    }
    kani::cover!(pre == 1, "takes over from another key's dance");
    core::mem::forget(l);
}

// @harness name=da_waiting_into_tap_chord_start prop=C09,C01 tier=quick timeout=1800
// @encodes Layout::waiting_into_tap with the pressed-queue of a resolved chord (v1), do_action (KeyCode arm)
// @inst Layout<3, 2, u8>
// @bounds a resolved chord whose action is the constant key A; the chord was started by key (0,0) and has been re-bound to the key (0,1) whose release ended it; the pressed-queue holds the starting key (its first entry); symbolic timing scalars
// @assumes none beyond the bounds
// @spec the chord action is registered on the bound coordinate AND on the starting key from the pressed-queue (2 key states), so that the chord stays active while its first key is still held (only the count is read back: DESIGN A.2)
#[kani::proof]
#[kani::unwind(5)]
fn da_waiting_into_tap_chord_start() {
    let mut l: Layout<'static, 3, 2, u8> = vk_layout_literal(&VK_SRC, &VK_LAYERS);
    let mut w = vk_da_waiting((0, 1));
    w.config = WaitingConfig::Chord(&VK_CH_GROUP1);
    l.waiting = Some(w);
    let mut pq = PressedQueue::new();
    let _ = pq.push_back((0, 0));
    let ev = l.waiting_into_tap(Some(pq), -1);
    assert!(matches!(ev, CustomEvent::NoEvent));
    assert!(l.states.len() == 2, "the chord action is held on every participating key, including the one that started the chord");
    core::mem::forget(l);
}

// @harness name=da_layer_twice prop=C04,C01 tier=quick timeout=1500
// @encodes Layout::do_action (Layer arm) when the same layer is already held by another key
// @inst Layout<3, 2, u8>
// @bounds constant action layer-while-held 2; pre-state: layer 2 already held by the key (0,2); the second layer key is (0,1); symbolic delay
// @assumes none beyond the bounds
// @spec every press of a layer-while-held key records its own held-layer state (2 states afterwards), so that the layer stays active until BOTH keys are released and each release undoes exactly its own press
#[kani::proof]
#[kani::unwind(4)]
fn da_layer_twice() {
    let action: Action<'_, u8> = Action::Layer(2);
    let mut l: Layout<'_, 3, 2, u8> = vk_layout_literal(&VK_SRC, &VK_LAYERS);
    let _ = l.states.push(LayerModifier { value: 2, coord: (0, 2) });
    let ev = l.do_action(&action, (0, 1), kani::any(), false, &mut std::iter::empty::<u16>());
    assert!(matches!(ev, CustomEvent::NoEvent));
    assert!(l.states.len() == 2, "the second key holding the same layer gets its own state");
    assert!(matches!(l.states[1], LayerModifier { value: 2, coord: (0, 1) }));
    core::mem::forget(l);
}
