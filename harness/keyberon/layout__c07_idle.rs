// C07-K1 (reduced): a tick of an idle Layout is a no-op.

// @harness name=c07_k1_idle_tick prop=C07 tier=quick timeout=1800
// @encodes Layout::tick (idle path: tick_lpt, process_sequences, History::tick_hist, OneShotState::tick_osh, queue pop, process_extra_waitings, process_sequence_custom)
// @inst Layout<3, 2, u8>
// @bounds an idle layout: no state, empty queues, nothing waiting, no one-shot key, no macro, no chords v2; the scalar leftovers are symbolic: base layer, last-press tracker (coordinate, repress window), one-shot timeout / end config / ignore counter / release flag, both resolution settings
// @assumes the layout conjuncts of Kanata::is_idle (empty states / queue / waiting / action queue / sequences / one-shot keys); pause_input_processing_ticks == 0 (is_idle checks it)
// @spec ticking an idle layout produces no custom event, no key state, queues nothing and leaves it idle: sleeping instead of ticking is unobservable
#[kani::proof]
#[kani::unwind(10)]
fn c07_k1_idle_tick() {
    let mut l: Layout<'static, 3, 2, u8> = vk_layout_literal(&VK_SRC, &VK_LAYERS);
    l.trans_resolution_behavior_v2 = kani::any();
    l.delegate_to_first_layer = kani::any();
    let dl: usize = kani::any();
    kani::assume(dl < 3);
    l.default_layer = dl;
    l.last_press_tracker.coord = (0, kani::any::<u16>() % 3);
    l.last_press_tracker.tap_hold_timeout = kani::any();
    l.oneshot.timeout = kani::any();
    l.oneshot.end_config = vk_c06_any_end_config();
    l.oneshot.ticks_to_ignore_events = kani::any();
    l.oneshot.release_on_next_tick = kani::any();
    l.oneshot.pause_input_processing_delay = kani::any();
    let ev = l.tick();
    assert!(matches!(ev, CustomEvent::NoEvent));
    assert!(l.states.is_empty() && l.queue.is_empty() && l.waiting.is_none() && l.extra_waiting.is_empty());
    assert!(l.action_queue.is_empty() && l.active_sequences.is_empty() && l.oneshot.keys.is_empty());
    assert!(l.oneshot.pause_input_processing_ticks == 0 && l.tap_dance_eager.is_none());
    assert!(l.default_layer == dl);
    // and a second tick as well
    let ev2 = l.tick();
    assert!(matches!(ev2, CustomEvent::NoEvent) && l.states.is_empty() && l.queue.is_empty());
    core::mem::forget(l);
}
