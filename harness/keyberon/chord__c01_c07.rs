// Chords v2 (`ChordsV2`): C07-K2 an idle chord processor stays idle and emits nothing;
// C01-K4 releasing the participants of an active chord releases its virtual coordinate.

static VK_CV2_ACT: Action<'static, u8> = Action::KeyCode(crate::key_code::KeyCode::X);
static VK_CV2_KEYS0: [u16; 2] = [10, 11];
static VK_CV2_KEYS1: [u16; 2] = [11, 12];

fn vk_cv2_new() -> ChordsV2<'static, u8> {
    ChordsV2 {
        queue: Queue::new(),
        chords: ChordsForKeys { mapping: FxHashMap::default() },
        active_chords: HVec::new(),
        ticks_to_ignore_chord: 0,
        configured_ticks_to_ignore_chord: kani::any(),
        ticks_until_next_state_change: kani::any(),
        prev_active_layer: kani::any(),
        prev_queue_len: kani::any(),
        next_coord: Cell::new(KEY_MAX + 1),
    }
}

// @harness name=c07_k2_chv2_idle prop=C07 tier=quick timeout=1200
// @encodes ChordsV2::tick_chv2, drain_inputs, drain_virtual_keys, drain_releases, process_presses (empty-queue path), clear_released_chords, is_idle_chv2, accepts_chords_chv2
// @inst T = u8
// @bounds idle processor (empty queue, no active chord, accepting chords); configured ignore time, next-state-change timer, previous layer and previous queue length symbolic; symbolic active layer
// @assumes the idle predicate kanata checks: is_idle_chv2() && accepts_chords_chv2()
// @spec a tick of an idle chord processor forwards no event, activates no chord and leaves it idle and accepting: sleeping through it is unobservable
#[kani::proof]
#[kani::unwind(3)]
fn c07_k2_chv2_idle() {
    let mut c = vk_cv2_new();
    assert!(c.is_idle_chv2() && c.accepts_chords_chv2());
    let layer: u16 = kani::any();
    let q = c.tick_chv2(layer);
    assert!(q.is_empty(), "nothing is forwarded to the layout while idle");
    assert!(c.is_idle_chv2() && c.accepts_chords_chv2());
    assert!(c.get_action_chv2().is_none());
    assert!(c.next_coord.get() == KEY_MAX + 1);
    core::mem::forget(c);
}

fn vk_cv2_any_status() -> ActiveChordStatus {
    let k: u8 = kani::any();
    kani::assume(k < 4);
    match k {
        0 => Unread,
        1 => UnreadReleased,
        2 => Releasable,
        _ => Released,
    }
}

// @harness name=c01_k4_chv2_release prop=PARKED tier=thorough timeout=1800
// @note runs out of memory (30 GB) even with only counts read back: two heapless/arraydeque retains inside the ChordsV2 object; kept for the record, not registered
// @encodes ChordsV2::drain_releases, ChordsV2::clear_released_chords, ChordsV2::get_action_chv2 (the release half of tick_chv2)
// @inst T = u8
// @bounds one active chord over keys {10, 11} at virtual coordinate 851 with symbolic status and a symbolic set of participants still to be released; the input queue holds exactly one release of a symbolic key among {10, 11, 12}; chords are accepted (ignore timer 0)
// @assumes none beyond the bounds
// @spec the physical release is always forwarded; when it is the last participant still held, the chord becomes released: if the layout already consumed it (Releasable) its virtual coordinate is released in the same tick and it is forgotten (if not yet consumed it stays queued for the layout); a release of a non-participant changes nothing; a chord already marked Released is cleared with its coordinate released
#[kani::proof]
#[kani::unwind(4)]
fn c01_k4_chv2_release() {
    let mut c = vk_cv2_new();
    let status = vk_cv2_any_status();
    let rem10: bool = kani::any();
    let rem11: bool = kani::any();
    let mut remaining: HVec<u16, SMOL_Q_LEN> = HVec::new();
    if rem10 {
        let _ = remaining.push(10);
    }
    if rem11 {
        let _ = remaining.push(11);
    }
    let _ = c.active_chords.push(ActiveChord {
        coordinate: 851,
        remaining_keys_to_release: remaining,
        participating_keys: &VK_CV2_KEYS0,
        action: &VK_CV2_ACT,
        status,
        delay: kani::any(),
    });
    let j: u16 = kani::any();
    kani::assume(j >= 10 && j <= 12);
    let _ = c.queue.push_back(Queued::new_release(0, j));
    // the release half of tick_chv2 (drain_inputs -> drain_releases, then clear_released_chords); the press
    // half (process_presses: FxHashMap lookups and nested candidate loops) is not executed here
    let mut q = SmolQueue::new();
    c.drain_releases(&mut q);
    c.clear_released_chords(&mut q);
    // reference
    let participant = j == 10 || j == 11;
    let left_after = (rem10 && j != 10) as usize + (rem11 && j != 11) as usize;
    let becomes_released = participant && left_after == 0;
    let status_after = if becomes_released {
        match status {
            Unread | UnreadReleased => UnreadReleased,
            Releasable | Released => Released,
        }
    } else {
        status
    };
    let cleared = status_after == Released;
    // outputs: the physical release first
    assert!(q.len() >= 1 && q[0].event == Event::Release(0, j), "the physical release itself is always forwarded");
    let mut saw_virtual_release = false;
    let mut i = 0;
    while i < q.len() {
        if q[i].event == Event::Release(0, 851) {
            saw_virtual_release = true;
        }
        assert!(!q[i].event.is_press());
        i += 1;
    }
    assert!(saw_virtual_release == cleared, "the chord's virtual coordinate is released exactly when the chord is cleared");
    assert!(c.active_chords.len() == if cleared { 0 } else { 1 });
    // (no other field of the processor is read back after the retains: see the note in layout__c01_release.rs)
    kani::cover!(cleared && status == Releasable, "last participant released: chord released in the same tick");
    kani::cover!(!cleared && status_after == UnreadReleased && status == Unread, "released before the layout consumed it");
    kani::cover!(!becomes_released && participant, "another participant is still held");
    kani::cover!(!participant, "release of an unrelated key");
    core::mem::forget(c);
}

// @harness name=c01_k4_chv2_release_while_ignoring prop=C01 tier=quick timeout=1800
// @encodes ChordsV2::drain_inputs (the ticks_to_ignore_chord > 0 path), ChordsV2::tick_chv2 bookkeeping
// @inst T = u8
// @bounds one active, already consumed (Releasable) chord over keys {10, 11} with key 10 still to be released; chord activation is currently being ignored (ignore timer 5, as after typing a non-chord key); the queue holds the release of key 10
// @assumes none beyond the bounds
// @spec a participant's release that leaves the chord queue must be applied to the active chord: afterwards key 10 is no longer awaited (and, being the last one, the chord is marked released) -- otherwise the chord's output stays pressed forever although every key is up
#[kani::proof]
#[kani::unwind(4)]
fn c01_k4_chv2_release_while_ignoring() {
    let mut c = vk_cv2_new();
    // concrete ignore timer: with a symbolic one CBMC also explores the (infeasible) press-processing path
    c.ticks_to_ignore_chord = 5;
    let mut remaining: HVec<u16, SMOL_Q_LEN> = HVec::new();
    let _ = remaining.push(10);
    let _ = c.active_chords.push(ActiveChord {
        coordinate: 851,
        remaining_keys_to_release: remaining,
        participating_keys: &VK_CV2_KEYS0,
        action: &VK_CV2_ACT,
        status: Releasable,
        delay: 0,
    });
    let _ = c.queue.push_back(Queued::new_release(0, 10));
    let mut q = SmolQueue::new();
    c.drain_inputs(&mut q, 0);
    assert!(q.len() == 1 && q[0].event == Event::Release(0, 10), "the release is forwarded to the layout");
    assert!(c.active_chords[0].remaining_keys_to_release.is_empty(), "and it is applied to the active chord");
    assert!(c.active_chords[0].status == Released);
    core::mem::forget(c);
}

// @harness name=c09_k4_chv2_nonparticipant_release prop=C09,C01 tier=quick timeout=1800
// @encodes ChordsV2::drain_releases
// @inst T = u8
// @bounds one active, consumed first-release chord over keys {10, 11} (no participant awaited); the queue holds the release of key 12 or 13, which does not take part in the chord
// @assumes none beyond the bounds
// @spec the release of a key that is not a participant of the chord never releases it, whatever its release rule: status and remaining keys are unchanged (a first-release chord ends on the release of one of ITS keys only)
#[kani::proof]
#[kani::unwind(4)]
fn c09_k4_chv2_nonparticipant_release() {
    let mut c = vk_cv2_new();
    // a first-release chord that is being held: consumed by the layout (Releasable), no participant awaited
    // (symbolic status / remaining set exhaust memory)
    let _ = c.active_chords.push(ActiveChord {
        coordinate: 851,
        remaining_keys_to_release: HVec::new(),
        participating_keys: &VK_CV2_KEYS0,
        action: &VK_CV2_ACT,
        status: Releasable,
        delay: 0,
    });
    let j: u16 = if kani::any() { 12 } else { 13 };
    let _ = c.queue.push_back(Queued::new_release(0, j));
    let mut q = SmolQueue::new();
    c.drain_releases(&mut q);
    assert!(c.active_chords[0].status == Releasable, "a non-participant's release does not release the chord");
    assert!(q.len() == 1 && q[0].event == Event::Release(0, j));
    core::mem::forget(c);
}
