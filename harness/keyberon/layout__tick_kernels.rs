// Kernels through the real `Layout::tick()` from almost-concrete states with a few symbolic scalars
// (a symbolic *structure* -- which states exist, which events are queued -- does not finish: DESIGN.md).

// @harness name=c17_k3_eager_tick prop=C17 tier=quick timeout=1800
// @encodes Layout::tick (tap-dance-eager bookkeeping: TapDanceEagerState::tick_tde / is_expired, clearing)
// @inst Layout<3, 2, u8>
// @bounds an otherwise idle layout with an eager tap-dance in progress: symbolic remaining timeout, configured timeout, tap count (<= 3) and list length 1..=3
// @assumes tap count <= list length
// @spec each tick lowers the remaining time by one; the dance is forgotten exactly when the time reaches 0 or every action has been used -- never one tick later (a tap arriving exactly at the timeout starts a new dance)
#[kani::proof]
#[kani::unwind(10)]
fn c17_k3_eager_tick() {
    let mut l: Layout<'static, 3, 2, u8> = vk_layout_literal(&VK_SRC, &VK_LAYERS);
    let len: usize = kani::any();
    kani::assume(len >= 1 && len <= 3);
    let t0: u16 = kani::any();
    let n0: u16 = kani::any();
    kani::assume(n0 as usize <= len);
    l.tap_dance_eager = Some(TapDanceEagerState { coord: (0, 1), actions: &VK_TD_ACTS[..len], timeout: t0, orig_timeout: kani::any(), num_taps: n0 });
    let ev = l.tick();
    assert!(matches!(ev, CustomEvent::NoEvent));
    let t1 = t0.saturating_sub(1);
    let expired = t1 == 0 || n0 as usize >= len;
    match &l.tap_dance_eager {
        None => assert!(expired, "the dance must not be forgotten early"),
        Some(s) => {
            assert!(!expired, "an expired dance must be forgotten on this very tick");
            assert!(s.timeout == t1 && s.num_taps == n0);
        }
    }
    assert!(l.states.is_empty() && l.queue.is_empty());
    kani::cover!(expired && t1 == 0 && (n0 as usize) < len, "expires by time");
    kani::cover!(!expired, "keeps counting");
    core::mem::forget(l);
}

// @harness name=c05_k3_tick_waiting prop=PARKED tier=thorough timeout=5400
// @note did not finish within 90 min (tick() with a symbolic waiting state and queue); kept for the record
// @encodes Layout::tick (a tap-hold decision is pending: queued events are aged, not dequeued), WaitingState::tick_wt, waiting_into_tap / _timeout, do_action (KeyCode arm)
// @inst Layout<3, 2, u8>
// @bounds a pending tap-hold (Default variant) for key (0,0) with constant tap = a, hold = lsft, timeout-action = lctl and symbolic remaining timeout / delay / ticks; the queue holds one press of another key with symbolic age, optionally followed by the tap-hold key's own release (symbolic)
// @assumes delay + ticks < 65535 (the key has been pending for less than 65.5 s)
// @spec while the decision stays pending the buffered press is neither output nor dropped (queue unchanged in order, ages +1, no key state); when it resolves in this tick exactly one of tap / timeout-action is pressed at the key's coordinate, the slot is emptied, and the buffered events are still queued in their original order for the following ticks
#[kani::proof]
#[kani::unwind(10)]
fn c05_k3_tick_waiting() {
    let mut l: Layout<'static, 3, 2, u8> = vk_layout_literal(&VK_SRC, &VK_LAYERS);
    let mut w = vk_waiting_holdtap(HoldTapConfig::Default, (0, 0));
    kani::assume(w.delay as u32 + w.ticks as u32 + 2 <= u16::MAX as u32);
    let t0 = w.timeout;
    let d0 = w.delay;
    l.waiting = Some(w);
    let s1: u16 = kani::any();
    let _ = l.queue.push_back(Queued { event: Event::Press(0, 1), since: s1 });
    let own_release: bool = kani::any();
    let s2: u16 = kani::any();
    if own_release {
        let _ = l.queue.push_back(Queued { event: Event::Release(0, 0), since: s2 });
    }
    let ev = l.tick();
    assert!(matches!(ev, CustomEvent::NoEvent));
    let n = if own_release { 2 } else { 1 };
    assert!(l.queue.len() == n, "buffered keys are not consumed while / when the decision is taken");
    assert!(l.queue[0].event == Event::Press(0, 1) && l.queue[0].since == s1.saturating_add(1), "buffered keys keep their order and age by one tick");
    if own_release {
        assert!(l.queue[1].event == Event::Release(0, 0));
    }
    match &l.waiting {
        Some(w2) => {
            assert!(l.states.is_empty(), "nothing is output before the decision");
            assert!(w2.timeout == t0.saturating_sub(1));
        }
        None => {
            assert!(l.states.len() == 1, "exactly one of tap / hold / timeout");
            let t1 = t0.saturating_sub(1) as i32;
            let want = if own_release {
                let rem = core::cmp::max(0, d0 as i32 - s2.saturating_add(1) as i32);
                if t1 > rem { KeyCode::A } else { KeyCode::LCtrl }
            } else {
                KeyCode::LCtrl
            };
            assert!(matches!(l.states[0], NormalKey { keycode, coord: (0, 0), .. } if keycode == want));
        }
    }
    kani::cover!(l.waiting.is_none() && own_release && matches!(l.states[0], NormalKey { keycode: KeyCode::A, .. }), "tap");
    kani::cover!(l.waiting.is_none() && !own_release, "timeout");
    kani::cover!(l.waiting.is_some(), "still pending");
    core::mem::forget(l);
}

// @harness name=c06_k7_tick_expiry prop=PARKED tier=thorough timeout=5400
// @note did not finish within 30 min (tick() -> dequeue(Release) with symbolic one-shot scalars); kept for the record
// @encodes Layout::tick (one-shot expiry: OneShotState::tick_osh -> dequeue(Release) for every deferred release)
// @inst Layout<3, 2, u8>
// @bounds one active one-shot key (0,1) whose physical release was deferred, its key state LShift in place, another plain key held; symbolic remaining timeout, end config and release-on-next-tick flag
// @assumes none beyond the bounds
// @spec on the tick at which the one-shot ends (armed, or remaining time reaches 0) its deferred release is applied: the one-shot key's state is gone, the other key stays, the table is empty; on any other tick nothing changes but the timer
#[kani::proof]
#[kani::unwind(10)]
fn c06_k7_tick_expiry() {
    let mut l: Layout<'static, 3, 2, u8> = vk_layout_literal(&VK_SRC, &VK_LAYERS);
    let _ = l.states.push(NormalKey { keycode: KeyCode::B, coord: (0, 2), flags: NormalKeyFlags(0) });
    let _ = l.states.push(NormalKey { keycode: KeyCode::LShift, coord: (0, 1), flags: NormalKeyFlags(0) });
    let _ = l.oneshot.keys.push_back((0, 1));
    let _ = l.oneshot.released_keys.push_back((0, 1));
    l.oneshot.end_config = vk_c06_any_end_config();
    let t0: u16 = kani::any();
    let flag: bool = kani::any();
    l.oneshot.timeout = t0;
    l.oneshot.release_on_next_tick = flag;
    let ev = l.tick();
    assert!(matches!(ev, CustomEvent::NoEvent));
    let ends = flag || t0 <= 1;
    if ends {
        assert!(l.states.len() == 1, "the deferred release of the one-shot key is applied when the one-shot ends");
        assert!(matches!(l.states[0], NormalKey { keycode: KeyCode::B, .. }));
    } else {
        assert!(l.states.len() == 2, "a one-shot that has not ended keeps its key down");
    }
    kani::cover!(ends && !flag, "expires by timeout");
    kani::cover!(!ends, "still active");
    core::mem::forget(l);
}

// @harness name=c10_k2_history_tick prop=C10 tier=quick timeout=900
// @encodes History::tick_hist, History::push_front, History::iter_hevents (the key / input ages that key-timing and key-history switch conditions read)
// @bounds a history of 3 recorded keys with symbolic ages (full u16)
// @assumes none
// @spec every tick ages every recorded event by exactly one, saturating at 65535 (an old key never looks recent again); order and identity of the recorded events are unchanged; a new event enters with age 0 as the most recent
#[kani::proof]
#[kani::unwind(10)]
fn c10_k2_history_tick() {
    let mut h: History<KeyCode> = History::new();
    h.push_front(KeyCode::A);
    h.push_front(KeyCode::B);
    h.push_front(KeyCode::C);
    let ages: [u16; 3] = [kani::any(), kani::any(), kani::any()];
    let mut i = 0;
    while i < 3 {
        h.ticks_since_occurrences[i] = ages[i];
        i += 1;
    }
    h.tick_hist();
    let want = [KeyCode::C, KeyCode::B, KeyCode::A];
    {
        let mut it = h.iter_hevents();
        i = 0;
        while i < 3 {
            match it.next() {
                Some(e) => {
                    assert!(e.event == want[i], "most recent first");
                    assert!(e.ticks_since_occurrence == ages[i].saturating_add(1), "ages grow by one per tick and saturate");
                }
                None => assert!(false),
            }
            i += 1;
        }
        assert!(it.next().is_none());
    }
    h.push_front(KeyCode::D);
    let first = h.iter_hevents().next();
    assert!(matches!(first, Some(e) if e.event == KeyCode::D && e.ticks_since_occurrence == 0));
    kani::cover!(ages[0] == u16::MAX, "saturated age");
}

// @harness name=c17_k3_eager_dequeue prop=C17,C02 tier=quick timeout=1800
// @encodes Layout::dequeue (Press arm with an eager tap-dance in progress), TapDanceEagerState::is_expired / incr_taps / set_expired, do_action (KeyCode arm via the layer table)
// @inst Layout<2, 1, u8> with a local one-layer table [a, b]
// @bounds an eager tap-dance of key (0,1) with 2 actions [x, y], symbolic remaining timeout and tap count 0..=2 (2 = list exhausted, a state that exists when events are dequeued outside tick(), e.g. on queue overflow); the key is pressed again
// @assumes none beyond the bounds
// @spec never a panic; while the dance is live (time left and actions left) the tap performs exactly the action for its tap number and the count grows by one; otherwise the key's ordinary layer action is performed
#[kani::proof]
#[kani::unwind(5)]
fn c17_k3_eager_dequeue() {
    let layers: [[[Action<'_, u8>; 2]; 1]; 1] = [[[Action::KeyCode(KeyCode::A), Action::KeyCode(KeyCode::B)]]];
    let src: [Action<'_, u8>; 2] = [Action::NoOp, Action::NoOp];
    let a0: Action<'_, u8> = Action::KeyCode(KeyCode::X);
    let a1: Action<'_, u8> = Action::KeyCode(KeyCode::Y);
    let acts: [&Action<'_, u8>; 2] = [&a0, &a1];
    let mut l: Layout<'_, 2, 1, u8> = vk_layout_literal(&src, &layers);
    let t0: u16 = kani::any();
    let n0: u16 = kani::any();
    kani::assume(n0 <= 2);
    l.tap_dance_eager = Some(TapDanceEagerState { coord: (0, 1), actions: &acts, timeout: t0, orig_timeout: 300, num_taps: n0 });
    l.last_press_tracker.coord = (0, 1);
    let ev = l.dequeue(Queued { event: Event::Press(0, 1), since: kani::any() });
    assert!(matches!(ev, CustomEvent::NoEvent));
    assert!(l.states.len() == 1);
    let live = t0 != 0 && n0 < 2;
    let want = if live {
        if n0 == 0 { KeyCode::X } else { KeyCode::Y }
    } else {
        KeyCode::B
    };
    assert!(matches!(l.states[0], NormalKey { keycode, coord: (0, 1), .. } if keycode == want));
    if live {
        assert!(matches!(&l.tap_dance_eager, Some(s) if s.num_taps == n0 + 1 && s.timeout == 300));
    }
    kani::cover!(live && n0 == 1, "second tap performs the second action");
    kani::cover!(!live && n0 == 2, "exhausted list falls back to the layer action");
    core::mem::forget(l);
}

// @harness name=c17_k3_eager_interrupt prop=C17 tier=quick timeout=1800
// @encodes Layout::dequeue (Press arm with an eager tap-dance in progress, another key pressed), TapDanceEagerState::set_expired
// @inst Layout<2, 1, u8> with a local one-layer table [a, b]
// @bounds an eager tap-dance of key (0,1) in progress (symbolic remaining timeout >= 1, 1 tap so far, 2 actions); ANOTHER real key (0,0) is pressed
// @assumes none beyond the bounds
// @spec another key ends the count: the other key performs its own action and the dance is marked expired in the layout's state itself (so that the next tap of the dance key starts again at the first action)
#[kani::proof]
#[kani::unwind(5)]
fn c17_k3_eager_interrupt() {
    let layers: [[[Action<'_, u8>; 2]; 1]; 1] = [[[Action::KeyCode(KeyCode::A), Action::KeyCode(KeyCode::B)]]];
    let src: [Action<'_, u8>; 2] = [Action::NoOp, Action::NoOp];
    let a0: Action<'_, u8> = Action::KeyCode(KeyCode::X);
    let a1: Action<'_, u8> = Action::KeyCode(KeyCode::Y);
    let acts: [&Action<'_, u8>; 2] = [&a0, &a1];
    let mut l: Layout<'_, 2, 1, u8> = vk_layout_literal(&src, &layers);
    let t0: u16 = kani::any();
    kani::assume(t0 >= 1);
    l.tap_dance_eager = Some(TapDanceEagerState { coord: (0, 1), actions: &acts, timeout: t0, orig_timeout: 300, num_taps: 1 });
    l.last_press_tracker.coord = (0, 1);
    let ev = l.dequeue(Queued { event: Event::Press(0, 0), since: kani::any() });
    assert!(matches!(ev, CustomEvent::NoEvent));
    assert!(l.states.len() == 1 && matches!(l.states[0], NormalKey { keycode: KeyCode::A, coord: (0, 0), .. }));
    match &l.tap_dance_eager {
        Some(s) => assert!(s.is_expired(), "the interrupted dance must be expired in the layout, not in a copy"),
        None => {}
    }
    core::mem::forget(l);
}
