// C01-K1 / C04-K4: release by coordinate: `State::release`, `Layout::dequeue(Release(i, j))`.

// @harness name=c01_k1_state_release prop=C01,C04,C10 tier=quick timeout=600
// @encodes State::release, State::coord, State::clear_on_next_release, CustomEvent::update
// @bounds one symbolic state of any of the 8 variants (coordinates over 2 rows x 3 columns), one symbolic released coordinate, symbolic prior custom event
// @assumes none
// @spec a state is released (None) iff it is a NormalKey / LayerModifier / Custom / RepeatingSequence created at exactly the released coordinate, independent of layer and key code; a released Custom reports CustomEvent::Release unless a release is already being reported; everything else is returned unchanged
#[kani::proof]
#[kani::unwind(3)]
fn c01_k1_state_release() {
    let s = vk_any_state(3);
    let c = vk_any_coord(3);
    let prior: u8 = kani::any();
    kani::assume(prior < 3);
    let mut custom: CustomEvent<'static, u8> = match prior {
        0 => CustomEvent::NoEvent,
        1 => CustomEvent::Press(&VK_CUSTOM_VALS[0]),
        _ => CustomEvent::Release(&VK_CUSTOM_VALS[0]),
    };
    let r = s.release(c, &mut custom);
    let created_at_c = match s {
        NormalKey { coord, .. } | LayerModifier { coord, .. } | RepeatingSequence { coord, .. } | State::Custom { coord, .. } => coord == c,
        _ => false,
    };
    assert!(s.coord().is_some() == matches!(s, NormalKey { .. } | LayerModifier { .. } | RepeatingSequence { .. } | State::Custom { .. }));
    match r {
        None => assert!(created_at_c),
        Some(t) => assert!(!created_at_c && vk_state_eq(&t, &s)),
    }
    match (s, created_at_c, prior) {
        (State::Custom { value, .. }, true, 0) | (State::Custom { value, .. }, true, 1) => {
            assert!(matches!(custom, CustomEvent::Release(v) if core::ptr::eq(v, value)));
        }
        (_, _, 0) => assert!(matches!(custom, CustomEvent::NoEvent)),
        (_, _, 1) => assert!(matches!(custom, CustomEvent::Press(_))),
        _ => assert!(matches!(custom, CustomEvent::Release(v) if core::ptr::eq(v, &VK_CUSTOM_VALS[0]))),
    }
    assert!(s.clear_on_next_release() == matches!(s, NormalKey { flags, .. } if flags.0 & NORMAL_KEY_FLAG_CLEAR_ON_NEXT_RELEASE != 0));
    kani::cover!(r.is_none() && matches!(s, LayerModifier { .. }), "a held layer is released by its key");
    kani::cover!(r.is_some() && s.coord().is_some(), "same kind, other coordinate survives");
}

/// `dequeue(Release(0,1))` on [fixed first state, fully symbolic last state].
/// Only the LAST state's removal is symbolic: heapless' `retain` then performs no element move at a symbolic
/// offset (such moves inside the multi-kilobyte Layout object exhaust CBMC's memory as soon as any other field
/// is read back; measured).  `first_at_c`: the first state is a NormalKey created at the released key or not.
fn vk_c01_release_last(first_at_c: bool, os_active: bool) -> (bool, usize) {
    let mut l: Layout<'static, 3, 2, u8> = vk_layout_literal(&VK_SRC, &VK_LAYERS);
    let c: KCoord = (0, 1);
    let c1: KCoord = if first_at_c { c } else { (0, 2) };
    let _ = l.states.push(NormalKey { keycode: KeyCode::A, coord: c1, flags: NormalKeyFlags(0) });
    let last = vk_any_state(3);
    let _ = l.states.push(last);
    let osk = vk_any_coord(3);
    if os_active {
        let _ = l.oneshot.keys.push_back(osk);
    }
    l.oneshot.end_config = vk_c06_any_end_config();
    let deferred = os_active && osk == c;
    let ev = l.dequeue(Queued { event: Event::Release(c.0, c.1), since: kani::any() });
    let last_at_c = last.coord() == Some(c);
    let eager = last.clear_on_next_release();
    let keep1 = deferred || !first_at_c;
    let keep2 = deferred || !(last_at_c || eager);
    assert!(l.states.len() == keep1 as usize + keep2 as usize, "exactly the states created at the released key (and eager-erasure keys) go, whatever the layer");
    // NOTE: no other field of the Layout is read back here.  Measured: after heapless' `retain` (element moves
    // modelled as byte-level copies inside the multi-kilobyte Layout object) reading ANY other field
    // (`default_layer`, `queue.len()`, `oneshot.released_keys`, ...) sends CBMC out of memory, while
    // `states.len()` and the returned event stay cheap.  That the deferred release is recorded is decided on
    // OneShotState itself by c06_k2_release.
    if deferred {
        assert!(matches!(ev, CustomEvent::NoEvent));
    } else {
        let is_custom_at_c = matches!(last, State::Custom { .. }) && last_at_c;
        assert!(matches!(ev, CustomEvent::Release(_)) == is_custom_at_c, "a custom action at the key reports its release");
        assert!(!matches!(ev, CustomEvent::Press(_)));
    }
    let n_after = l.states.len();
    core::mem::forget(l); // keep Layout's drop glue (Option<ChordsV2> -> hashbrown) out of the formula
    (deferred, n_after)
}

// @harness name=c01_k1_release prop=C01,C04 tier=quick timeout=1500
// @encodes Layout::dequeue (Release arm), State::release, State::clear_on_next_release, OneShotState::handle_release, CustomEvent::update
// @inst Layout<3, 2, u8> built by struct literal, field-for-field Layout::new (kanata uses <767, 2, &&[&CustomAction]>; nothing in this path depends on the width)
// @bounds states = [NormalKey created at the released key, one fully symbolic state (any of the 8 variants, symbolic coordinate/layer/key/flags)]; no one-shot active; released key (0,1)
// @assumes none beyond the bounds
// @spec afterwards exactly the states created at the released coordinate (plus eager-erasure keys) are gone, whatever the layer; a Custom state at the coordinate is reported as CustomEvent::Release
#[kani::proof]
#[kani::unwind(4)]
fn c01_k1_release() {
    let (_deferred, n) = vk_c01_release_last(true, false);
    kani::cover!(n == 0, "both states of the key removed");
    kani::cover!(n == 1, "the other key's state survives");
}

// @harness name=c01_k1_release_other prop=C01 tier=quick timeout=1500
// @encodes as c01_k1_release
// @inst Layout<3, 2, u8>
// @bounds as c01_k1_release but the first state belongs to another key
// @assumes none beyond the bounds
// @spec as c01_k1_release; a state of another key is never removed by this release
#[kani::proof]
#[kani::unwind(4)]
fn c01_k1_release_other() {
    let (_deferred, n) = vk_c01_release_last(false, false);
    kani::cover!(n == 2, "release of a key that is not down changes nothing");
    kani::cover!(n == 1, "only the released key's state goes");
}

// @harness name=c01_k1_release_oneshot prop=C01,C06 tier=quick timeout=1500
// @encodes as c01_k1_release
// @inst Layout<3, 2, u8>
// @bounds as c01_k1_release, with one active one-shot key at a symbolic coordinate (all 4 end configs)
// @assumes none beyond the bounds
// @spec as c01_k1_release unless the released key is the active one-shot key: then nothing is removed and the release is recorded in the deferred list (applied when the one-shot ends, see C06)
#[kani::proof]
#[kani::unwind(4)]
fn c01_k1_release_oneshot() {
    let (deferred, n) = vk_c01_release_last(true, true);
    kani::cover!(deferred && n == 2, "deferred by one-shot");
    kani::cover!(!deferred && n < 2, "released normally while another one-shot key is active");
}

// @harness name=c01_k1_release_overflow prop=C01,C06 tier=quick timeout=1800
// @encodes Layout::dequeue (Release arm, overflow of the deferred-release ring), OneShotState::handle_release, State::release
// @inst Layout<3, 2, u8>
// @bounds 16 deferred one-shot releases already recorded (the oldest for key (0,1), the others for (0,2)); one-shot keys (0,1), (0,2) and (0,0) active; key states [LShift at (0,1), LCtrl at (0,0)]; the still-held one-shot key (0,0) is released
// @assumes none beyond the bounds
// @spec deferring a 17th release evicts the OLDEST deferred release and applies it at once: the evicted key's state is removed, so no one-shot key can be left pressed for ever; the newly released key's state stays (its release is deferred)
#[kani::proof]
#[kani::unwind(19)]
fn c01_k1_release_overflow() {
    let mut l: Layout<'static, 3, 2, u8> = vk_layout_literal(&VK_SRC, &VK_LAYERS);
    let _ = l.states.push(NormalKey { keycode: KeyCode::LCtrl, coord: (0, 0), flags: NormalKeyFlags(0) });
    let _ = l.states.push(NormalKey { keycode: KeyCode::LShift, coord: (0, 1), flags: NormalKeyFlags(0) });
    let _ = l.oneshot.keys.push_back((0, 0));
    let _ = l.oneshot.keys.push_back((0, 1));
    let _ = l.oneshot.keys.push_back((0, 2));
    l.oneshot.end_config = vk_c06_any_end_config();
    l.oneshot.timeout = kani::any();
    let _ = l.oneshot.released_keys.push_back((0, 1));
    let mut k = 1;
    while k < 16 {
        let _ = l.oneshot.released_keys.push_back((0, 2));
        k += 1;
    }
    let ev = l.dequeue(Queued { event: Event::Release(0, 0), since: kani::any() });
    assert!(matches!(ev, CustomEvent::NoEvent));
    assert!(l.states.len() == 1, "the evicted (oldest) deferred release is applied immediately");
    core::mem::forget(l);
}
