// C04-K1/K2: which layer a press is resolved on -- `current_layer`, `active_held_layers`,
// `trans_resolution_layer_order`, `resolve_coord` (all read-only on the Layout).

/// 4 states, each symbolically a held layer (value < 3) or a plain key; pushed at concrete positions.
fn vk_c04_layout() -> (Layout<'static, 3, 2, u8>, [Option<u16>; 4]) {
    let mut l: Layout<'static, 3, 2, u8> = vk_layout_literal(&VK_SRC, &VK_LAYERS);
    l.trans_resolution_behavior_v2 = kani::any();
    l.delegate_to_first_layer = kani::any();
    let dl: usize = kani::any();
    kani::assume(dl < 3);
    l.default_layer = dl;
    let mut held: [Option<u16>; 4] = [None; 4];
    let mut i = 0;
    while i < 4 {
        let is_layer: bool = kani::any();
        if is_layer {
            let v: usize = kani::any();
            kani::assume(v < 3);
            let _ = l.states.push(LayerModifier { value: v, coord: (0, i as u16) });
            held[i] = Some(v as u16);
        } else {
            let _ = l.states.push(NormalKey { keycode: vk_any_keycode(), coord: (0, i as u16), flags: NormalKeyFlags(0) });
        }
        i += 1;
    }
    (l, held)
}

// @harness name=c04_k1_layer_order prop=C04 tier=quick timeout=1500
// @encodes Layout::current_layer, Layout::active_held_layers, Layout::trans_resolution_layer_order, State::get_layer
// @inst Layout<3, 2, u8>
// @bounds 4 states, each symbolically a held layer (0..2) or a plain key; symbolic base layer (0..2); both transparent-resolution settings and delegate-to-first-layer on/off symbolic
// @assumes none beyond the bounds
// @spec current layer = most recently activated held layer, else the base layer; search order (v2) = held layers newest first, then the base layer, then layer 0 iff delegating and neither the current nor the base layer is 0; (v1) = current layer, then layer 0 iff delegating and current != 0
#[kani::proof]
#[kani::unwind(7)]
fn c04_k1_layer_order() {
    let (l, held) = vk_c04_layout();
    let dl = l.default_layer as u16;
    // reference
    let mut newest_first: [u16; 4] = [0; 4];
    let mut nh = 0usize;
    let mut i = 4;
    while i > 0 {
        i -= 1;
        if let Some(v) = held[i] {
            newest_first[nh] = v;
            nh += 1;
        }
    }
    let cur = if nh > 0 { newest_first[0] } else { dl };
    assert!(l.current_layer() as u16 == cur);
    let mut k = 0;
    {
        let mut it = l.active_held_layers();
        while k < 4 {
            if k < nh {
                assert!(it.next() == Some(newest_first[k]));
            }
            k += 1;
        }
        assert!(it.next().is_none());
    }
    let order = l.trans_resolution_layer_order();
    if l.trans_resolution_behavior_v2 {
        let extra = l.delegate_to_first_layer && cur != 0 && dl != 0;
        assert!(order.len() == nh + 1 + extra as usize);
        k = 0;
        while k < 4 {
            if k < nh {
                assert!(order[k] == newest_first[k], "held layers are searched newest first");
            }
            k += 1;
        }
        assert!(order[nh] == dl, "then the base layer");
        if extra {
            assert!(order[nh + 1] == 0, "then the first layer when so configured");
        }
    } else {
        let extra = l.delegate_to_first_layer && cur != 0;
        assert!(order.len() == 1 + extra as usize);
        assert!(order[0] == cur);
        if extra {
            assert!(order[1] == 0);
        }
    }
    kani::cover!(nh == 4, "four held layers");
    kani::cover!(nh == 0 && l.delegate_to_first_layer && dl != 0, "delegation from the base layer");
    kani::cover!(nh == 2 && newest_first[0] != newest_first[1], "two different held layers");
    core::mem::forget(l);
}

// 4 layers x 2 rows x 2 columns with symbolic Trans / KeyCode entries
fn vk_c04_any_entry(k: KeyCode) -> Action<'static, u8> {
    if kani::any() {
        Action::Trans
    } else {
        Action::KeyCode(k)
    }
}

// @harness name=c04_k2_resolve prop=C04 tier=quick timeout=1500
// @encodes Layout::resolve_coord
// @inst Layout<2, 2, u8>
// @bounds 4 layers x 2 rows x 2 columns whose entries are symbolically transparent or a key distinct per layer; a symbolic search stack of 0..=4 layer numbers (< 4); symbolic coordinate (row 0 = real keys, row 1 = virtual keys)
// @assumes none beyond the bounds
// @spec the result is the entry of the first layer of the stack, in order, whose entry at the coordinate is not transparent; if all are transparent: the defsrc key for a real key (row 0), no-op for a virtual key (row 1)
#[kani::proof]
#[kani::unwind(7)]
fn c04_k2_resolve() {
    let ks = [KeyCode::Kb0, KeyCode::Kb1, KeyCode::Kb2, KeyCode::Kb3];
    let layers: [[[Action<'static, u8>; 2]; 2]; 4] = [
        [[vk_c04_any_entry(ks[0]), vk_c04_any_entry(ks[0])], [vk_c04_any_entry(ks[0]), vk_c04_any_entry(ks[0])]],
        [[vk_c04_any_entry(ks[1]), vk_c04_any_entry(ks[1])], [vk_c04_any_entry(ks[1]), vk_c04_any_entry(ks[1])]],
        [[vk_c04_any_entry(ks[2]), vk_c04_any_entry(ks[2])], [vk_c04_any_entry(ks[2]), vk_c04_any_entry(ks[2])]],
        [[vk_c04_any_entry(ks[3]), vk_c04_any_entry(ks[3])], [vk_c04_any_entry(ks[3]), vk_c04_any_entry(ks[3])]],
    ];
    let src: [Action<'static, u8>; 2] = [Action::KeyCode(KeyCode::A), Action::KeyCode(KeyCode::B)];
    let l: Layout<'_, 2, 2, u8> = vk_layout_literal(&src, &layers);
    let mut stack: LayerStack = Vec::new();
    let n: usize = kani::any();
    kani::assume(n <= 4);
    let mut sv: [u16; 4] = [0; 4];
    let mut i = 0;
    while i < 4 {
        if i < n {
            let v: u16 = kani::any();
            kani::assume(v < 4);
            sv[i] = v;
            let _ = stack.push(v);
        }
        i += 1;
    }
    let x: u8 = kani::any();
    let y: u16 = kani::any();
    kani::assume(x < 2 && y < 2);
    let got = l.resolve_coord((x, y), &mut stack.into_iter());
    // reference
    let mut want: Option<KeyCode> = None;
    let mut found = false;
    i = 0;
    while i < 4 {
        if i < n && !found {
            if let Action::KeyCode(k) = layers[sv[i] as usize][x as usize][y as usize] {
                want = Some(k);
                found = true;
            }
        }
        i += 1;
    }
    match (found, got) {
        (true, Action::KeyCode(k)) => assert!(Some(*k) == want, "first non-transparent entry along the search order"),
        (false, Action::KeyCode(k)) => assert!(x == 0 && *k == if y == 0 { KeyCode::A } else { KeyCode::B }, "all transparent: the defsrc key"),
        (false, Action::NoOp) => assert!(x == 1, "all transparent on the virtual-key row: no-op"),
        _ => assert!(false, "unexpected resolution"),
    }
    kani::cover!(found && n == 4 && sv[3] != sv[0], "found on the last of four layers");
    kani::cover!(!found && x == 0 && n > 0, "falls through to defsrc");
    kani::cover!(!found && x == 1, "virtual key falls through to no-op");
    core::mem::forget(l);
}
