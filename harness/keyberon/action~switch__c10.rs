// C10: the switch evaluator (`evaluate_boolean`, `SwitchActions::next`), the opcode encoding and
// the lossy tick compression, against a short recursive reference.

use crate::layout::HistoricalEvent as VkHe;

#[derive(Clone, Copy)]
struct VkNode {
    is_op: bool,
    op: BooleanOperator,
    end: usize,
    key: u8, // 0..3 -> KeyCode A, B, C
}

const VK_KEYS: [KeyCode; 3] = [KeyCode::A, KeyCode::B, KeyCode::C];

fn vk_any_op() -> BooleanOperator {
    let k: u8 = kani::any();
    kani::assume(k < 3);
    match k {
        0 => Or,
        1 => And,
        _ => Not,
    }
}

/// Reference semantics: Or = any operand, And = every operand, Not = no operand; top level = Or.
/// Non-recursive: sub-expression values are computed from the last opcode backwards, so every operand
/// of an operator is already known when the operator is reached.
fn vk_ref_eval<const L: usize>(n: &[VkNode; L], _start: usize, _end: usize, _op: BooleanOperator, active: &[bool; 3]) -> bool {
    let mut val = [false; L];
    let mut i = L;
    while i > 0 {
        i -= 1;
        if n[i].is_op {
            let mut any = false;
            let mut all = true;
            let mut j = i + 1;
            while j < n[i].end {
                any |= val[j];
                all &= val[j];
                j = if n[j].is_op { n[j].end } else { j + 1 };
            }
            val[i] = match n[i].op {
                Or => any,
                And => all,
                Not => !any,
            };
        } else {
            val[i] = active[n[i].key as usize];
        }
    }
    let mut any = false;
    let mut j = 0;
    while j < L {
        any |= val[j];
        j = if n[j].is_op { n[j].end } else { j + 1 };
    }
    any
}

/// A symbolic well-formed expression of exactly L opcodes built through the public constructors:
/// every position is a key leaf or an operator whose operand range is non-empty, lies after it and
/// inside the range of every enclosing operator (what the compiler's back-patching produces).
fn vk_any_expr<const L: usize>() -> ([VkNode; L], [OpCode; L]) {
    let mut n = [VkNode { is_op: false, op: Or, end: 0, key: 0 }; L];
    let mut ops = [OpCode::new_key(KeyCode::A); L];
    let mut i = 0;
    while i < L {
        let is_op: bool = kani::any();
        if is_op {
            let end: usize = kani::any();
            kani::assume(end > i + 1 && end <= L);
            let mut j = 0;
            while j < i {
                if n[j].is_op && n[j].end > i {
                    kani::assume(end <= n[j].end);
                }
                j += 1;
            }
            let op = vk_any_op();
            n[i] = VkNode { is_op: true, op, end, key: 0 };
            ops[i] = OpCode::new_bool(op, end as u16);
        } else {
            let key: u8 = kani::any();
            kani::assume(key < 3);
            n[i] = VkNode { is_op: false, op: Or, end: 0, key };
            ops[i] = OpCode::new_key(VK_KEYS[key as usize]);
        }
        i += 1;
    }
    (n, ops)
}

fn vk_c10_eval<const L: usize>() -> (bool, [VkNode; L]) {
    let (n, ops) = vk_any_expr::<L>();
    let active: [bool; 3] = [kani::any(), kani::any(), kani::any()];
    // the active key list handed to the evaluator: the three keys that are down, others replaced by an unrelated key
    let keys: [KeyCode; 3] = [
        if active[0] { KeyCode::A } else { KeyCode::Z },
        if active[1] { KeyCode::B } else { KeyCode::Z },
        if active[2] { KeyCode::C } else { KeyCode::Z },
    ];
    let got = evaluate_boolean(
        &ops,
        keys.iter().copied(),
        [].iter().copied(),
        [].iter().copied(),
        [].iter().copied(),
        [].iter().copied(),
        0,
    );
    let want = vk_ref_eval(&n, 0, L, Or, &active);
    assert!(got == want, "the case fires iff its written condition is true");
    (got, n)
}

// @harness name=c10_k1_eval_l3 prop=C10,C02 tier=quick timeout=1500
// @encodes evaluate_boolean, OpCode::opcode_type, OperatorAndEndIndex::from, OpCode::new_bool, OpCode::new_key
// @bounds every well-formed expression of exactly 3 opcodes (any mix of and/or/not and key leaves over 3 keys, any nesting) and every truth assignment to the 3 keys
// @assumes well-formedness: each operator has >= 1 operand and its range nests inside its parents' (what parse_switch_case_bool emits)
// @spec evaluate_boolean == recursive reference (or = any, and = all, not = none, top level = or); no panic
#[kani::proof]
#[kani::unwind(7)]
fn c10_k1_eval_l3() {
    let (got, n) = vk_c10_eval::<3>();
    kani::cover!(got && n[0].is_op && n[0].op == Not, "a true not(...)");
    kani::cover!(!got && n[0].is_op && n[0].op == And && n[0].end == 3, "a false and(...)");
    kani::cover!(n[0].is_op && n[1].is_op, "nested operator");
}

// @harness name=c10_k1_eval_l4 prop=C10,C02 tier=quick timeout=1500
// @encodes evaluate_boolean, OpCode::opcode_type, OperatorAndEndIndex::from, OpCode::new_bool, OpCode::new_key
// @bounds every well-formed expression of exactly 4 opcodes (any mix of and/or/not and key leaves over 3 keys, any nesting) and every truth assignment to the 3 keys
// @assumes well-formedness: each operator has >= 1 operand and its range nests inside its parents' (what parse_switch_case_bool emits)
// @spec evaluate_boolean == recursive reference (or = any, and = all, not = none, top level = or); no panic (operator stack depth <= 8)
#[kani::proof]
#[kani::unwind(9)]
fn c10_k1_eval_l4() {
    let (got, n) = vk_c10_eval::<4>();
    kani::cover!(got && n[0].is_op && n[0].op == Not, "a true not(...)");
    kani::cover!(!got && n[0].is_op && n[0].op == And && n[0].end == 4, "a false and(...)");
    kani::cover!(n[0].is_op && n[1].is_op && n[0].end == 4 && n[1].end < 4, "nested operator followed by a sibling");
}

// @harness name=c10_k1_eval_l5 prop=C10 tier=quick timeout=2400
// @encodes as c10_k1_eval_l4
// @bounds every well-formed expression of exactly 5 opcodes over 3 keys, every truth assignment
// @assumes as c10_k1_eval_l4
// @spec as c10_k1_eval_l4
#[kani::proof]
#[kani::unwind(12)]
fn c10_k1_eval_l5() {
    let (got, n) = vk_c10_eval::<5>();
    kani::cover!(got && n[0].is_op && n[0].op == Not, "a true not(...)");
    kani::cover!(!got && n[0].is_op && n[0].op == And && n[0].end == 5, "a false and(...)");
    kani::cover!(n[0].is_op && n[1].is_op && n[0].end == 5 && n[1].end < 5, "nested operator followed by a sibling");
}

// @harness name=c10_k1_eval_l6 prop=C10 tier=quick timeout=2400
// @encodes as c10_k1_eval_l4
// @bounds every well-formed expression of exactly 6 opcodes over 3 keys, every truth assignment
// @assumes as c10_k1_eval_l4
// @spec as c10_k1_eval_l4
#[kani::proof]
#[kani::unwind(14)]
fn c10_k1_eval_l6() {
    let (got, n) = vk_c10_eval::<6>();
    kani::cover!(got && n[0].is_op && n[0].op == Not, "a true not(...)");
    kani::cover!(!got && n[0].is_op && n[0].op == And && n[0].end == 6, "a false and(...)");
    kani::cover!(n[0].is_op && n[1].is_op && n[0].end == 6 && n[1].end < 6, "nested operator followed by a sibling");
}

// @harness name=c10_k1_eval_l7 prop=C10 tier=thorough timeout=7200
// @encodes as c10_k1_eval_l4
// @bounds every well-formed expression of exactly 7 opcodes over 3 keys, every truth assignment
// @assumes as c10_k1_eval_l4
// @spec as c10_k1_eval_l4
#[kani::proof]
#[kani::unwind(16)]
fn c10_k1_eval_l7() {
    let (got, n) = vk_c10_eval::<7>();
    kani::cover!(got && n[0].is_op && n[0].op == Not, "a true not(...)");
    kani::cover!(!got && n[0].is_op && n[0].op == And && n[0].end == 7, "a false and(...)");
    kani::cover!(n[0].is_op && n[1].is_op && n[0].end == 7 && n[1].end < 7, "nested operator followed by a sibling");
}

// @harness name=c10_k1_depth8 prop=C10,C02 tier=thorough timeout=3600
// @encodes evaluate_boolean (operator stack of 8)
// @bounds a chain of 8 nested operators (symbolic kinds) around one key leaf, plus a trailing sibling leaf; the maximum depth the parser accepts
// @assumes none
// @spec no panic at the maximum accepted nesting depth; result equals the reference
#[kani::proof]
#[kani::unwind(22)]
fn c10_k1_depth8() {
    const L: usize = 10;
    let mut n = [VkNode { is_op: false, op: Or, end: 0, key: 0 }; L];
    let mut ops = [OpCode::new_key(KeyCode::A); L];
    let mut i = 0;
    while i < 8 {
        let op = vk_any_op();
        n[i] = VkNode { is_op: true, op, end: 9, key: 0 };
        ops[i] = OpCode::new_bool(op, 9);
        i += 1;
    }
    n[8] = VkNode { is_op: false, op: Or, end: 0, key: 0 };
    n[9] = VkNode { is_op: false, op: Or, end: 0, key: 1 };
    ops[9] = OpCode::new_key(KeyCode::B);
    let active: [bool; 3] = [kani::any(), kani::any(), false];
    let keys: [KeyCode; 2] = [if active[0] { KeyCode::A } else { KeyCode::Z }, if active[1] { KeyCode::B } else { KeyCode::Z }];
    let got = evaluate_boolean(&ops, keys.iter().copied(), [].iter().copied(), [].iter().copied(), [].iter().copied(), [].iter().copied(), 0);
    let want = vk_ref_eval(&n, 0, L, Or, &active);
    assert!(got == want);
    kani::cover!(got, "true");
    kani::cover!(!got, "false");
}

// @harness name=c10_k2_ticks prop=C10 tier=quick timeout=600
// @encodes lossy_compress_ticks, lossy_decompress_ticks, OpCode::new_ticks_since_gt/lt, OpCode::opcode_type
// @bounds every u16 threshold, every recency 0..=7
// @assumes none
// @spec decompress(compress(t)) <= t, exact below 256, within 8 below 2304, within 128 above, monotone; the decoded opcode carries exactly (recency, decompress(compress(t))) and the right comparison kind
#[kani::proof]
fn c10_k2_ticks() {
    let t: u16 = kani::any();
    let c = lossy_compress_ticks(t);
    assert!(c <= 0x03FF, "fits the 10-bit field");
    let d = lossy_decompress_ticks(c);
    assert!(d <= t);
    if t <= 255 {
        assert!(d == t);
    } else if t <= 2303 {
        assert!(t - d < 8);
    } else {
        assert!(t - d < 128);
    }
    let t2: u16 = kani::any();
    if t2 >= t {
        assert!(lossy_compress_ticks(t2) >= c, "monotone");
    }
    let nth: u8 = kani::any();
    kani::assume(nth <= MAX_KEY_RECENCY);
    match OpCode::new_ticks_since_gt(nth, t).opcode_type(None) {
        OpCodeType::TicksSinceGreaterThan(x) => assert!(x.nth_key == nth && x.ticks_since == d),
        _ => assert!(false),
    }
    match OpCode::new_ticks_since_lt(nth, t).opcode_type(None) {
        OpCodeType::TicksSinceLessThan(x) => assert!(x.nth_key == nth && x.ticks_since == d),
        _ => assert!(false),
    }
}

// @harness name=c10_k2_encoding prop=C10,C02 tier=quick timeout=900
// @encodes OpCode::new_key, new_key_history, new_bool, new_active_input, new_historical_input, new_layer, new_base_layer, OpCode::opcode_type
// @bounds every operand value the constructors accept (key codes via their u16 value <= KEY_MAX; recency 0..=7; end index <= 0x0FFF; input row < 4, column < 0x400; layer numbers full u16 below MAX_LAYERS)
// @assumes operands within the constructors' asserted ranges
// @spec decode(encode(x)) == x for every opcode kind: no two kinds or operand values collide
#[kani::proof]
fn c10_k2_encoding() {
    // boolean operators
    let end: u16 = kani::any();
    kani::assume(end <= MAX_OPCODE_LEN);
    let op = vk_any_op();
    match OpCode::new_bool(op, end).opcode_type(None) {
        OpCodeType::BooleanOp(x) => assert!(x.op == op && x.idx == end as usize),
        _ => assert!(false),
    }
    // key history
    let rec: u8 = kani::any();
    kani::assume(rec <= MAX_KEY_RECENCY);
    let kc = VK_KEYS[(rec % 3) as usize];
    match OpCode::new_key_history(kc, rec).opcode_type(None) {
        OpCodeType::HistoricalKeyCode(x) => assert!(x.key_code == kc as u16 && x.how_far_back == rec),
        _ => assert!(false),
    }
    match OpCode::new_key(kc).opcode_type(None) {
        OpCodeType::KeyCode(x) => assert!(x == kc as u16),
        _ => assert!(false),
    }
    // two-word leaves
    let row: u8 = kani::any();
    let col: u16 = kani::any();
    kani::assume(row < 4 && col < 0x0400);
    let (a, b) = OpCode::new_active_input((row, col));
    match a.opcode_type(Some(b)) {
        OpCodeType::Input(c) => assert!(c == (row, col)),
        _ => assert!(false),
    }
    let (a, b) = OpCode::new_historical_input((row, col), rec);
    match a.opcode_type(Some(b)) {
        OpCodeType::HistoricalInput(h) => assert!(h.input == (row, col) && h.how_far_back == rec),
        _ => assert!(false),
    }
    let layer: u16 = kani::any();
    kani::assume((layer as usize) < crate::layout::MAX_LAYERS);
    let (a, b) = OpCode::new_layer(layer);
    match a.opcode_type(Some(b)) {
        OpCodeType::Layer(l) => assert!(l == layer),
        _ => assert!(false),
    }
    let (a, b) = OpCode::new_base_layer(layer);
    match a.opcode_type(Some(b)) {
        OpCodeType::BaseLayer(l) => assert!(l == layer),
        _ => assert!(false),
    }
}

// @harness name=c10_k2_leaves prop=C10 tier=quick timeout=1500
// @encodes evaluate_boolean leaf arms: key-history, key-timing lt/gt, input, input-history, layer, base-layer
// @bounds one leaf of symbolic kind with symbolic operands; histories of exactly 3 entries with symbolic contents; 2 active inputs; symbolic current layer and base layer
// @assumes operands within the constructors' ranges; recency < 4 (3 recorded entries + one out of range)
// @spec each leaf is true iff its direct definition holds: n-th most recent key / input equals the operand; n-th most recent key pressed <= / > the (decompressed) threshold ticks ago; input currently active; first layer of the stack equals operand; base layer equals operand; out-of-range recency => false
#[kani::proof]
#[kani::unwind(6)]
fn c10_k2_leaves() {
    let hk: [VkHe<KeyCode>; 3] = [
        VkHe { event: VK_KEYS[(kani::any::<u8>() % 3) as usize], ticks_since_occurrence: kani::any() },
        VkHe { event: VK_KEYS[(kani::any::<u8>() % 3) as usize], ticks_since_occurrence: kani::any() },
        VkHe { event: VK_KEYS[(kani::any::<u8>() % 3) as usize], ticks_since_occurrence: kani::any() },
    ];
    let c0: u16 = kani::any();
    let c1: u16 = kani::any();
    let c2: u16 = kani::any();
    kani::assume(c0 < 4 && c1 < 4 && c2 < 4);
    let hi: [VkHe<KCoord>; 3] = [
        VkHe { event: (0, c0), ticks_since_occurrence: kani::any() },
        VkHe { event: (0, c1), ticks_since_occurrence: kani::any() },
        VkHe { event: (1, c2), ticks_since_occurrence: kani::any() },
    ];
    let inputs: [KCoord; 2] = [(0, c1), (1, c0)];
    let cur_layer: u16 = kani::any();
    let base: u16 = kani::any();
    let layers: [u16; 2] = [cur_layer, base];
    let rec: u8 = kani::any();
    kani::assume(rec < 4);
    let kc = VK_KEYS[(kani::any::<u8>() % 3) as usize];
    let t: u16 = kani::any();
    let row: u8 = kani::any();
    let col: u16 = kani::any();
    kani::assume(row < 2 && col < 4);
    let lay: u16 = kani::any();
    kani::assume((lay as usize) < crate::layout::MAX_LAYERS);
    let kind: u8 = kani::any();
    kani::assume(kind < 7);
    let mut ops = [OpCode::new_key(KeyCode::A); 2];
    let mut len = 1;
    let want: bool;
    let thr = lossy_decompress_ticks(lossy_compress_ticks(t));
    match kind {
        0 => {
            ops[0] = OpCode::new_key_history(kc, rec);
            want = rec < 3 && hk[rec as usize].event == kc;
        }
        1 => {
            ops[0] = OpCode::new_ticks_since_lt(rec, t);
            want = rec < 3 && hk[rec as usize].ticks_since_occurrence <= thr;
        }
        2 => {
            ops[0] = OpCode::new_ticks_since_gt(rec, t);
            want = rec < 3 && hk[rec as usize].ticks_since_occurrence > thr;
        }
        3 => {
            let (a, b) = OpCode::new_active_input((row, col));
            ops = [a, b];
            len = 2;
            want = inputs[0] == (row, col) || inputs[1] == (row, col);
        }
        4 => {
            let (a, b) = OpCode::new_historical_input((row, col), rec);
            ops = [a, b];
            len = 2;
            want = rec < 3 && hi[rec as usize].event == (row, col);
        }
        5 => {
            let (a, b) = OpCode::new_layer(lay);
            ops = [a, b];
            len = 2;
            want = cur_layer == lay;
        }
        _ => {
            let (a, b) = OpCode::new_base_layer(lay);
            ops = [a, b];
            len = 2;
            want = base == lay;
        }
    }
    let got = evaluate_boolean(
        &ops[..len],
        [].iter().copied(),
        inputs.iter().copied(),
        hk.iter().copied(),
        hi.iter().copied(),
        layers.iter().copied(),
        base,
    );
    assert!(got == want);
    kani::cover!(got && kind == 1, "key-timing lt true");
    kani::cover!(got && kind == 4, "input-history true");
    kani::cover!(!got && kind == 5, "layer false");
    kani::cover!(rec == 3 && kind == 0, "recency beyond recorded history");
}

static VK_SW_A0: Action<'static, u8> = Action::KeyCode(KeyCode::Kb0);
static VK_SW_A1: Action<'static, u8> = Action::KeyCode(KeyCode::Kb1);
static VK_SW_A2: Action<'static, u8> = Action::KeyCode(KeyCode::Kb2);

// @harness name=c10_k3_cases prop=PARKED tier=thorough timeout=5400
// @note 3 cases / 4 next() calls did not finish within 25 min (20 GB); the 2-case version c10_k3_cases2 is registered
// @encodes Switch::actions, SwitchActions::next
// @bounds 3 cases: two guarded by one symbolic key leaf (3 keys), the last with the empty (always true) condition; symbolic break/fallthrough per case; every truth assignment to the keys
// @assumes none
// @spec the iterator yields exactly the cases whose condition is true, top to bottom, and nothing after the first firing case marked break; then None forever
#[kani::proof]
#[kani::unwind(5)]
fn c10_k3_cases() {
    let active: [bool; 3] = [kani::any(), kani::any(), kani::any()];
    let keys: [KeyCode; 3] = [
        if active[0] { KeyCode::A } else { KeyCode::Z },
        if active[1] { KeyCode::B } else { KeyCode::Z },
        if active[2] { KeyCode::C } else { KeyCode::Z },
    ];
    let k0: u8 = kani::any();
    let k1: u8 = kani::any();
    kani::assume(k0 < 3 && k1 < 3);
    let e0 = [OpCode::new_key(VK_KEYS[k0 as usize])];
    let e1 = [OpCode::new_key(VK_KEYS[k1 as usize])];
    let e2: [OpCode; 0] = [];
    let brk: [bool; 3] = [kani::any(), kani::any(), kani::any()];
    let cases: [Case<'_, u8>; 3] = [
        (&e0, &VK_SW_A0, if brk[0] { Break } else { Fallthrough }),
        (&e1, &VK_SW_A1, if brk[1] { Break } else { Fallthrough }),
        (&e2, &VK_SW_A2, if brk[2] { Break } else { Fallthrough }),
    ];
    let sw = Switch { cases: &cases };
    let mut it = sw.actions(
        keys.iter().copied(),
        [].iter().copied(),
        [].iter().copied(),
        [].iter().copied(),
        [].iter().copied(),
        0,
    );
    let got = [it.next(), it.next(), it.next(), it.next()];
    // reference
    let fires = [active[k0 as usize], active[k1 as usize], true];
    let acts: [&Action<'_, u8>; 3] = [&VK_SW_A0, &VK_SW_A1, &VK_SW_A2];
    let mut want: [Option<&Action<'_, u8>>; 4] = [None; 4];
    let mut nw = 0;
    let mut stopped = false;
    let mut i = 0;
    while i < 3 {
        if !stopped && fires[i] {
            want[nw] = Some(acts[i]);
            nw += 1;
            if brk[i] {
                stopped = true;
            }
        }
        i += 1;
    }
    i = 0;
    while i < 4 {
        match (got[i], want[i]) {
            (Some(g), Some(w)) => assert!(core::ptr::eq(g, w), "firing cases come out top to bottom"),
            (None, None) => {}
            _ => assert!(false, "a case fired that should not, or a firing case was skipped"),
        }
        i += 1;
    }
    kani::cover!(nw == 3, "all three fall through");
    kani::cover!(nw == 1 && stopped, "break hides the always-true last case");
    kani::cover!(nw == 2 && !fires[0], "first case skipped");
}

// @harness name=c10_k3_cases2 prop=C10 tier=quick timeout=1800
// @encodes Switch::actions, SwitchActions::next
// @bounds 2 cases: the first guarded by the key a, the second with the empty (always true) condition; symbolic break/fallthrough on the first case; a down or up
// @assumes none
// @spec the iterator yields exactly the cases whose condition is true, top to bottom, and nothing after a firing case marked break; then None
#[kani::proof]
#[kani::unwind(4)]
fn c10_k3_cases2() {
    let a_down: bool = kani::any();
    let keys: [KeyCode; 1] = [if a_down { KeyCode::A } else { KeyCode::Z }];
    let e0 = [OpCode::new_key(KeyCode::A)];
    let e1: [OpCode; 0] = [];
    let brk0: bool = kani::any();
    let cases: [Case<'_, u8>; 2] = [
        (&e0, &VK_SW_A0, if brk0 { Break } else { Fallthrough }),
        (&e1, &VK_SW_A1, Break),
    ];
    let sw = Switch { cases: &cases };
    let mut it = sw.actions(keys.iter().copied(), [].iter().copied(), [].iter().copied(), [].iter().copied(), [].iter().copied(), 0);
    let g0 = it.next();
    let g1 = it.next();
    let g2 = it.next();
    if a_down {
        assert!(matches!(g0, Some(a) if core::ptr::eq(a, &VK_SW_A0)), "the first true case fires first");
        if brk0 {
            assert!(g1.is_none(), "break stops the switch");
        } else {
            assert!(matches!(g1, Some(a) if core::ptr::eq(a, &VK_SW_A1)), "fallthrough continues with the next true case");
            assert!(g2.is_none());
        }
    } else {
        assert!(matches!(g0, Some(a) if core::ptr::eq(a, &VK_SW_A1)), "a false case is skipped");
        assert!(g1.is_none() && g2.is_none());
    }
    kani::cover!(a_down && !brk0, "fallthrough");
    kani::cover!(a_down && brk0, "break");
}
