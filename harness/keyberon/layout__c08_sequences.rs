// C08-K1: one macro step per tick, `Layout::process_sequences`.

static VK_C08_EVS_PRESS: [SequenceEvent<'static, u8>; 2] = [SequenceEvent::Press(KeyCode::A), SequenceEvent::Release(KeyCode::A)];
static VK_C08_EVS_TAP: [SequenceEvent<'static, u8>; 2] = [SequenceEvent::Tap(KeyCode::B), SequenceEvent::Press(KeyCode::A)];
static VK_C08_EVS_DELAY: [SequenceEvent<'static, u8>; 2] = [SequenceEvent::Delay { duration: 7 }, SequenceEvent::Press(KeyCode::A)];
static VK_C08_EVS_DELAY0: [SequenceEvent<'static, u8>; 2] = [SequenceEvent::Delay { duration: 0 }, SequenceEvent::Press(KeyCode::A)];
static VK_C08_EVS_COMPLETE: [SequenceEvent<'static, u8>; 2] = [SequenceEvent::Complete, SequenceEvent::Press(KeyCode::A)];
static VK_C08_EVS_LAST: [SequenceEvent<'static, u8>; 1] = [SequenceEvent::Press(KeyCode::A)];
static VK_C08_EVS_RELEASE: [SequenceEvent<'static, u8>; 2] = [SequenceEvent::Release(KeyCode::A), SequenceEvent::Press(KeyCode::B)];

fn vk_c08_count_fake(l: &Layout<'static, 3, 2, u8>, k: KeyCode) -> usize {
    // concrete indices only (see layout__c01_release.rs)
    let mut n = 0;
    let len = l.states.len();
    if len > 0 && matches!(l.states[0], FakeKey { keycode } if keycode == k) { n += 1; }
    if len > 1 && matches!(l.states[1], FakeKey { keycode } if keycode == k) { n += 1; }
    if len > 2 && matches!(l.states[2], FakeKey { keycode } if keycode == k) { n += 1; }
    if len > 3 && matches!(l.states[3], FakeKey { keycode } if keycode == k) { n += 1; }
    n
}

// @harness name=c08_k1_step_nonrelease prop=C08 tier=quick timeout=1800
// @encodes Layout::process_sequences (delay countdown, Press / Tap / Delay / Complete arms, re-queueing), OneShotState::handle_press (reached)
// @inst Layout<3, 2, u8> built by struct literal
// @bounds one active macro whose remaining list is symbolically one of 6 two-/one-step lists (press, tap, delay 7, delay 0, complete, last press); its pending delay is a symbolic u32; two prior states (a plain key and a macro-held key)
// @assumes none beyond the bounds
// @spec per tick exactly one of: the pending delay drops by one (nothing else happens) / one list item is consumed; press and tap add exactly one macro-held key, tap arms its release for the next tick, delay d arms d-1 further idle ticks, complete ends the macro; a macro with nothing left is not re-queued; never two items in one tick
#[kani::proof]
#[kani::unwind(4)]
fn c08_k1_step_nonrelease() {
    let mut l: Layout<'static, 3, 2, u8> = vk_layout_literal(&VK_SRC, &VK_LAYERS);
    let _ = l.states.push(NormalKey { keycode: KeyCode::C, coord: (0, 1), flags: NormalKeyFlags(0) });
    let _ = l.states.push(FakeKey { keycode: KeyCode::B });
    let which: u8 = kani::any();
    kani::assume(which < 6);
    let evs: &'static [SequenceEvent<'static, u8>] = match which {
        0 => &VK_C08_EVS_PRESS,
        1 => &VK_C08_EVS_TAP,
        2 => &VK_C08_EVS_DELAY,
        3 => &VK_C08_EVS_DELAY0,
        4 => &VK_C08_EVS_COMPLETE,
        _ => &VK_C08_EVS_LAST,
    };
    let delay: u32 = kani::any();
    let _ = l.active_sequences.push_back(SequenceState { cur_event: None, delay, tapped: None, remaining_events: evs });
    l.process_sequences();
    let n_states = l.states.len();
    if delay > 0 {
        assert!(n_states == 2, "while a delay is pending nothing is output");
        assert!(l.active_sequences.len() == 1);
        let s = l.active_sequences[0];
        assert!(s.delay == delay - 1 && s.remaining_events.len() == evs.len() && s.tapped.is_none());
    } else {
        match which {
            0 | 5 => {
                assert!(n_states == 3 && matches!(l.states[2], FakeKey { keycode: KeyCode::A }), "a press adds exactly its key");
            }
            1 => {
                assert!(n_states == 3 && matches!(l.states[2], FakeKey { keycode: KeyCode::B }));
            }
            _ => assert!(n_states == 2),
        }
        if which == 4 || which == 5 {
            assert!(l.active_sequences.is_empty(), "a finished macro is not re-queued");
        } else {
            assert!(l.active_sequences.len() == 1);
            let s = l.active_sequences[0];
            assert!(s.remaining_events.len() == 1, "exactly one item per tick");
            match which {
                1 => assert!(s.tapped == Some(KeyCode::B) && s.delay == 0),
                2 => assert!(s.delay == 6 && s.tapped.is_none()),
                _ => assert!(s.delay == 0 && s.tapped.is_none()),
            }
        }
    }
    kani::cover!(delay > 0, "delay pending");
    kani::cover!(delay == 0 && which == 1, "tap");
    kani::cover!(delay == 0 && which == 4, "complete");
    core::mem::forget(l);
}

// @harness name=c08_k1_step_release prop=PARKED tier=thorough timeout=1800
// @note runs out of memory (30 GB): process_sequences re-reads other Layout fields after heapless retain; the release predicate itself is decided by c08_k1_seq_release
// @encodes Layout::process_sequences (delay countdown, tapped-key release, Release arm), State::seq_release
// @inst Layout<3, 2, u8>
// @bounds one active macro with a symbolic pending delay (u32) that is symbolically either about to release a tapped key A or has Release(A) as next item; prior states [macro-held A, plain key A, macro-held B, macro-held A] (concrete: a symbolic removal pattern makes heapless' retain inside the Layout object exhaust CBMC's memory)
// @assumes none beyond the bounds
// @spec while a delay is pending nothing is released; otherwise the release removes every macro-held instance of exactly that key and nothing else (the physically held key with the same code and the other macro-held key stay down)
#[kani::proof]
#[kani::unwind(6)]
fn c08_k1_step_release() {
    let mut l: Layout<'static, 3, 2, u8> = vk_layout_literal(&VK_SRC, &VK_LAYERS);
    let _ = l.states.push(FakeKey { keycode: KeyCode::A });
    let _ = l.states.push(NormalKey { keycode: KeyCode::A, coord: (0, 1), flags: NormalKeyFlags(0) });
    let _ = l.states.push(FakeKey { keycode: KeyCode::B });
    let _ = l.states.push(FakeKey { keycode: KeyCode::A });
    let tapped_path: bool = kani::any();
    let delay: u32 = kani::any();
    let seq = if tapped_path {
        SequenceState { cur_event: None, delay, tapped: Some(KeyCode::A), remaining_events: &VK_C08_EVS_LAST }
    } else {
        SequenceState { cur_event: None, delay, tapped: None, remaining_events: &VK_C08_EVS_RELEASE }
    };
    let _ = l.active_sequences.push_back(seq);
    l.process_sequences();
    if delay > 0 {
        assert!(l.states.len() == 4, "nothing is released while a delay is pending");
    } else {
        assert!(l.states.len() == 2, "every macro-held instance of the key, and only those, are released");
        assert!(matches!(l.states[0], NormalKey { keycode: KeyCode::A, .. }), "a physically held key with the same code stays down");
        assert!(matches!(l.states[1], FakeKey { keycode: KeyCode::B }), "other macro-held keys stay down");
    }
    kani::cover!(delay == 0 && tapped_path, "tapped key released on the next tick");
    kani::cover!(delay == 0 && !tapped_path, "explicit release item");
    kani::cover!(delay > 0, "delay pending");
    core::mem::forget(l);
}

// @harness name=c08_k1_seq_release prop=C08,C01 tier=quick timeout=600
// @encodes State::seq_release (the predicate process_sequences and CancelSequences use to release macro-held keys)
// @bounds one symbolic state of any of the 8 variants, one symbolic key code among 4
// @assumes none
// @spec a macro release of key k removes exactly the macro-held (FakeKey) states of k: physically held keys with the same code, held layers, custom actions and other macro-held keys are untouched
#[kani::proof]
#[kani::unwind(3)]
fn c08_k1_seq_release() {
    let s = vk_any_state(3);
    let k = vk_any_keycode();
    let r = s.seq_release(k);
    let is_fake_k = matches!(s, FakeKey { keycode } if keycode == k);
    match r {
        None => assert!(is_fake_k),
        Some(t) => assert!(!is_fake_k && vk_state_eq(&t, &s)),
    }
    kani::cover!(is_fake_k, "released");
    kani::cover!(matches!(s, NormalKey { keycode, .. } if keycode == k), "physical key with the same code survives");
}

// @harness name=c08_k1_seq_custom prop=C08,C01 tier=quick timeout=1800
// @encodes Layout::process_sequence_custom, CustomEvent::update
// @inst Layout<3, 2, u8>
// @bounds states [plain key, macro custom item in symbolic phase (pending / active)]; the custom event already produced this tick is symbolic (none / press / release of another custom action)
// @assumes none beyond the bounds
// @spec a macro's custom (e.g. unicode) item is delivered as exactly one press then one release on later ticks and is NEVER lost: if another custom event already occupies this tick the item does not advance (it waits for a free tick); otherwise pending -> press + active, active -> release + done
#[kani::proof]
#[kani::unwind(5)]
fn c08_k1_seq_custom() {
    let mut l: Layout<'static, 3, 2, u8> = vk_layout_literal(&VK_SRC, &VK_LAYERS);
    let _ = l.states.push(NormalKey { keycode: KeyCode::C, coord: (0, 1), flags: NormalKeyFlags(0) });
    let active_phase: bool = kani::any();
    if active_phase {
        let _ = l.states.push(SeqCustomActive(&VK_CUSTOM_VALS[0]));
    } else {
        let _ = l.states.push(SeqCustomPending(&VK_CUSTOM_VALS[0]));
    }
    let prior: u8 = kani::any();
    kani::assume(prior < 3);
    let cur: CustomEvent<'static, u8> = match prior {
        0 => CustomEvent::NoEvent,
        1 => CustomEvent::Press(&VK_CUSTOM_VALS[1]),
        _ => CustomEvent::Release(&VK_CUSTOM_VALS[1]),
    };
    let out = l.process_sequence_custom(cur);
    assert!(l.states.len() == 2);
    if prior != 0 {
        // the tick is taken: the other event goes out unchanged and the macro item must not advance
        match (prior, out) {
            (1, CustomEvent::Press(v)) | (2, CustomEvent::Release(v)) => assert!(*v == VK_CUSTOM_VALS[1]),
            _ => assert!(false, "the other custom event must not be replaced"),
        }
        if active_phase {
            assert!(matches!(l.states[1], SeqCustomActive(_)), "the item waits for a free tick");
        } else {
            assert!(matches!(l.states[1], SeqCustomPending(_)), "the item waits for a free tick");
        }
    } else if active_phase {
        assert!(matches!(out, CustomEvent::Release(v) if *v == VK_CUSTOM_VALS[0]));
        assert!(matches!(l.states[1], Tombstone));
    } else {
        assert!(matches!(out, CustomEvent::Press(v) if *v == VK_CUSTOM_VALS[0]));
        assert!(matches!(l.states[1], SeqCustomActive(_)));
    }
    kani::cover!(prior == 1 && !active_phase, "pending item while another press is reported");
    kani::cover!(prior == 0 && active_phase, "release of the item");
    core::mem::forget(l);
}
