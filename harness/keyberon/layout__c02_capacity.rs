// C02: fixed-capacity containers and coordinate-indexed lookups must not crash event processing,
// whatever (parser-accepted) configuration and (possibly physically impossible) history produced the state.

// @harness name=c02_k4_many_layers prop=PARKED tier=thorough timeout=1800
// @note finds the pre-fix panic (Vec::from_iter overflow in trans_resolution_layer_order) in 13 s, but on the repaired tree the full query runs out of memory (30 GB) -- pointer-based iteration over 13 states inside the Layout object; kept for the record, not registered for any property
// @encodes Layout::trans_resolution_layer_order, Layout::active_held_layers, Layout::current_layer (LayerStack capacity 12)
// @inst Layout<3, 2, u8>
// @bounds 13 simultaneously held layer activations (concrete layer numbers alternating 1, 2) -- reachable from one key mapped to a `multi` of layer-while-held actions, or from repeated presses of a layer key without release; symbolic base layer and both resolution settings
// @assumes none
// @spec computing the search order never panics; it holds at most 12 entries, starts with the most recently activated layer and still ends with the base layer (then layer 0 when delegating), so transparent keys keep resolving
#[kani::proof]
#[kani::unwind(15)]
fn c02_k4_many_layers() {
    let mut l: Layout<'static, 3, 2, u8> = vk_layout_literal(&VK_SRC, &VK_LAYERS);
    l.trans_resolution_behavior_v2 = true;
    l.delegate_to_first_layer = true;
    let dl: usize = kani::any();
    kani::assume(dl < 3);
    l.default_layer = dl;
    let mut newest: u16 = 0;
    let mut i = 0;
    while i < 13 {
        // concrete held layers alternating between 1 and 2 (a symbolic value here makes the query run out of
        // memory: measured); the base layer and both resolution settings stay symbolic
        let v: usize = 1 + (i % 2);
        let _ = l.states.push(LayerModifier { value: v, coord: (0, 1) });
        newest = v as u16;
        i += 1;
    }
    let order = l.trans_resolution_layer_order();
    assert!(order.len() >= 1 && order.len() <= MAX_ACTIVE_LAYERS);
    assert!(order[0] == newest, "the most recently activated layer is searched first");
    if l.trans_resolution_behavior_v2 {
        let extra = l.delegate_to_first_layer && newest != 0 && dl != 0;
        let mut it = order.iter().rev();
        if extra {
            assert!(it.next() == Some(&0), "layer 0 still closes the search when delegating");
        }
        assert!(it.next() == Some(&(dl as u16)), "the base layer is still searched after the held layers");
    }
    kani::cover!(l.trans_resolution_behavior_v2 && l.delegate_to_first_layer && newest != 0 && dl != 0, "v2 with delegation");
    kani::cover!(!l.trans_resolution_behavior_v2, "v1");
    core::mem::forget(l);
}

static VK_C02_WIDE_LAYERS: [[[Action<'static, u8>; 767]; 2]; 1] = [[[Action::Trans; 767]; 2]; 1];
static VK_C02_WIDE_SRC: [Action<'static, u8>; 767] = [Action::KeyCode(KeyCode::A); 767];

// @harness name=c02_k1_coord_lookup prop=C02 tier=quick timeout=1800
// @encodes Layout::resolve_coord at kanata's real width
// @inst Layout<767, 2, u8> (kanata's KEYS_IN_ROW x 2 rows)
// @bounds every coordinate (row 0..=1, column 0..=900): real keys 0..766 and the chords-v2 virtual coordinates 851..=900 that ChordsV2::next_coord hands to do_action; all-transparent layer 0; search stack [0]
// @assumes none
// @spec resolving a transparent action never panics, for any coordinate the run time can produce: real keys fall through to defsrc, virtual-key and chord coordinates to no-op
#[kani::proof]
#[kani::unwind(3)]
fn c02_k1_coord_lookup() {
    let l: Layout<'static, 767, 2, u8> = vk_layout_literal(&VK_C02_WIDE_SRC, &VK_C02_WIDE_LAYERS);
    let x: u8 = kani::any();
    let y: u16 = kani::any();
    kani::assume(x < 2 && y <= 900);
    let mut stack: LayerStack = Vec::new();
    let _ = stack.push(0);
    let a = l.resolve_coord((x, y), &mut stack.into_iter());
    if x == 0 && y < 767 {
        assert!(matches!(a, Action::KeyCode(KeyCode::A)), "a real key falls through to its defsrc key");
    } else {
        assert!(matches!(a, Action::NoOp), "virtual keys and chord coordinates fall through to no-op");
    }
    kani::cover!(y >= 851, "chords-v2 virtual coordinate");
    core::mem::forget(l);
}

// @harness name=c01_k3_queue_overflow prop=C01,C02,C04 tier=quick timeout=1800
// @encodes Layout::event (queue-overflow path: waiting_into_hold for every slot, dequeue of the evicted event), Layout::dequeue (Release arm)
// @inst Layout<3, 2, u8>
// @bounds the 32-slot event queue is full: the oldest entry is the release of key (0,1), the other 31 are presses of (0,2) with symbolic ages; the key (0,1) is held (one key state); nothing is waiting; a 33rd event arrives (symbolic press or release of a symbolic key)
// @assumes none beyond the bounds
// @spec a flood larger than the queue loses nothing: the evicted (oldest) event is processed at once -- here the held key is released -- and the queue stays full with the new event at its end; no panic
#[kani::proof]
#[kani::unwind(35)]
fn c01_k3_queue_overflow() {
    let mut l: Layout<'static, 3, 2, u8> = vk_layout_literal(&VK_SRC, &VK_LAYERS);
    let _ = l.states.push(NormalKey { keycode: KeyCode::B, coord: (0, 1), flags: NormalKeyFlags(0) });
    let _ = l.queue.push_back(Queued { event: Event::Release(0, 1), since: kani::any() });
    let mut k = 1;
    while k < 32 {
        let _ = l.queue.push_back(Queued { event: Event::Press(0, 2), since: kani::any() });
        k += 1;
    }
    assert!(l.queue.is_full());
    let e = vk_any_event(3);
    l.event(e);
    assert!(l.states.is_empty(), "the evicted release is applied immediately: the key does not stay down");
    assert!(l.queue.len() == 32);
    assert!(l.queue[31].event == e && l.queue[31].since == 0, "the new event is queued last");
    assert!(l.queue[0].event == Event::Press(0, 2), "exactly the oldest event was evicted");
    core::mem::forget(l);
}

// @harness name=c01_k3_queue_overflow_waiting prop=C01,C05 tier=quick timeout=1800
// @encodes Layout::event (queue-overflow path), Layout::waiting_into_hold, do_action (KeyCode arm), Layout::dequeue (Release arm)
// @inst Layout<3, 2, u8>
// @bounds the queue is full (oldest entry: release of a key that is not down), no key state yet, and a tap-hold decision is pending for key (0,0) (constant hold = lsft, symbolic timing)
// @assumes delay + ticks of the pending key < 65535
// @spec when the queue overflows every pending tap-hold is resolved as HOLD (exactly once, slot emptied) and then the evicted event is processed: afterwards the hold key (and nothing else) is down
#[kani::proof]
#[kani::unwind(35)]
fn c01_k3_queue_overflow_waiting() {
    let mut l: Layout<'static, 3, 2, u8> = vk_layout_literal(&VK_SRC, &VK_LAYERS);
    l.waiting = Some(vk_da_waiting((0, 0)));
    let _ = l.queue.push_back(Queued { event: Event::Release(0, 1), since: kani::any() });
    let mut k = 1;
    while k < 32 {
        let _ = l.queue.push_back(Queued { event: Event::Press(0, 2), since: kani::any() });
        k += 1;
    }
    l.event(Event::Press(0, 2));
    assert!(l.waiting.is_none(), "the pending decision is forced");
    assert!(l.states.len() == 1, "exactly the hold action was performed");
    assert!(matches!(l.states[0], NormalKey { keycode: KeyCode::LShift, coord: (0, 0), .. }), "forced to HOLD, not tap");
    assert!(l.queue.len() == 32);
    core::mem::forget(l);
}
