// Loop-free constructor equivalent to `MultiKeyBuffer::new()` (which fills the buffer through
// `array::from_fn`, a 20-iteration loop that would force every harness to unwind >= 21).
pub(crate) fn vk_mkb_new<'a, T>() -> MultiKeyBuffer<'a, T> {
    MultiKeyBuffer {
        buf: [KeyCode::Escape; BUFCAP],
        size: 0,
        ptr: Box::leak(Box::new(unsafe { slice::from_raw_parts(core::ptr::NonNull::dangling().as_ptr(), 0) })),
        ac: Box::leak(Box::new(Action::NoOp)),
    }
}
