// @harness name=zz_tick1 prop=ZZ tier=quick timeout=1800
#[kani::proof]
#[kani::unwind(10)]
fn zz_tick1() {
    let cfg: HoldTapAction<'_, u8> = HoldTapAction {
        timeout: 3,
        hold: Action::KeyCode(KeyCode::LCtrl),
        tap: Action::KeyCode(KeyCode::Space),
        timeout_action: Action::KeyCode(KeyCode::LAlt),
        config: HoldTapConfig::Default,
        tap_hold_interval: 0,
    };
    let layers: [[[Action<'_, u8>; 2]; 1]; 1] = [[[Action::KeyCode(KeyCode::A), Action::HoldTap(&cfg)]]];
    let src: [Action<'_, u8>; 2] = [Action::NoOp, Action::NoOp];
    let mut l: Layout<'_, 2, 1, u8> = vk_layout_literal(&src, &layers);
    l.event(Event::Press(0, 1));
    let _ = l.tick();
    assert!(l.waiting.is_some() && l.states.is_empty());
    let rel_at: u8 = kani::any();
    kani::assume(rel_at < 5);
    let mut saw_space = false;
    let mut saw_alt = false;
    let mut saw_ctrl = false;
    let mut t: u8 = 0;
    while t < 6 {
        if t == rel_at {
            l.event(Event::Release(0, 1));
        }
        let _ = l.tick();
        if l.states.len() > 0 {
            match l.states[0] {
                NormalKey { keycode: KeyCode::Space, .. } => saw_space = true,
                NormalKey { keycode: KeyCode::LAlt, .. } => saw_alt = true,
                NormalKey { keycode: KeyCode::LCtrl, .. } => saw_ctrl = true,
                _ => {}
            }
        }
        t += 1;
    }
    assert!(!saw_ctrl);
    assert!(saw_space != saw_alt, "exactly one of tap / timeout");
    assert!(l.states.is_empty() && l.waiting.is_none() && l.queue.is_empty());
    kani::cover!(saw_space, "tap");
    kani::cover!(saw_alt, "timeout");
    core::mem::forget(l);
}
