// Shared helpers for the in-crate keyberon::layout harnesses.
// This file is include!()-ed into a child module of keyberon::layout in the mirror,
// so every private item of layout.rs is visible through `use super::*`.

#[allow(dead_code)]
pub(super) fn vk_any_event(ncoord: u16) -> Event {
    let j: u16 = kani::any();
    kani::assume(j < ncoord);
    if kani::any() {
        Event::Press(0, j)
    } else {
        Event::Release(0, j)
    }
}

/// A queue holding `n <= MAXLEN` symbolic events over coordinates (0, 0..ncoord),
/// built through the real `push_back` so the ArrayDeque representation is the real one.
#[allow(dead_code)]
pub(super) fn vk_any_queue<const MAXLEN: usize>(ncoord: u16) -> (Queue, usize) {
    let mut q = Queue::new();
    let n: usize = kani::any();
    kani::assume(n <= MAXLEN);
    let mut k = 0;
    while k < MAXLEN {
        if k < n {
            let _ = q.push_back(Queued {
                event: vk_any_event(ncoord),
                since: kani::any(),
            });
        }
        k += 1;
    }
    (q, n)
}

#[allow(dead_code)]
pub(super) static VK_NOOP: Action<'static, u8> = Action::NoOp;
#[allow(dead_code)]
pub(super) static VK_HOLD: Action<'static, u8> = Action::KeyCode(KeyCode::LShift);
#[allow(dead_code)]
pub(super) static VK_TAP: Action<'static, u8> = Action::KeyCode(KeyCode::A);
#[allow(dead_code)]
pub(super) static VK_TIMEOUT: Action<'static, u8> = Action::KeyCode(KeyCode::LCtrl);

#[allow(dead_code)]
pub(super) fn vk_waiting_holdtap(cfg: HoldTapConfig<'static>, coord: KCoord) -> WaitingState<'static, u8> {
    WaitingState {
        coord,
        timeout: kani::any(),
        delay: kani::any(),
        ticks: kani::any(),
        hold: &VK_HOLD,
        tap: &VK_TAP,
        timeout_action: &VK_TIMEOUT,
        config: WaitingConfig::HoldTap(cfg),
        layer_stack: Vec::new(),
        prev_queue_len: kani::any(),
    }
}

// ---------------------------------------------------------------------------------------------
// A small real Layout with symbolic contents.
// ---------------------------------------------------------------------------------------------
#[allow(dead_code)]
pub static VK_CUSTOM_VALS: [u8; 2] = [11, 22];
#[allow(dead_code)]
pub static VK_SEQ_EVENTS: &[SequenceEvent<'static, u8>] = &[SequenceEvent::Tap(KeyCode::Q)];

/// 3 columns x 2 rows (row 1 = virtual keys) x 3 layers.
#[allow(dead_code)]
pub static VK_LAYERS: [[[Action<'static, u8>; 3]; 2]; 3] = [
    [
        [Action::KeyCode(KeyCode::A), Action::KeyCode(KeyCode::B), Action::Layer(1)],
        [Action::KeyCode(KeyCode::F1), Action::NoOp, Action::NoOp],
    ],
    [
        [Action::Trans, Action::KeyCode(KeyCode::Kb1), Action::Trans],
        [Action::Trans, Action::Trans, Action::Trans],
    ],
    [
        [Action::KeyCode(KeyCode::X), Action::Trans, Action::Trans],
        [Action::Trans, Action::Trans, Action::Trans],
    ],
];
#[allow(dead_code)]
pub static VK_SRC: [Action<'static, u8>; 3] = [
    Action::KeyCode(KeyCode::A),
    Action::KeyCode(KeyCode::B),
    Action::KeyCode(KeyCode::C),
];

#[allow(dead_code)]
pub(super) fn vk_any_keycode() -> KeyCode {
    let k: u8 = kani::any();
    kani::assume(k < 4);
    match k {
        0 => KeyCode::A,
        1 => KeyCode::B,
        2 => KeyCode::LShift,
        _ => KeyCode::LCtrl,
    }
}

#[allow(dead_code)]
pub(super) fn vk_any_coord(ncol: u16) -> KCoord {
    let x: u8 = kani::any();
    let y: u16 = kani::any();
    kani::assume(x < 2 && y < ncol);
    (x, y)
}

/// Any state of any variant; coordinates over 2 rows x `ncol` columns, layers < 3.
#[allow(dead_code)]
pub(super) fn vk_any_state(ncol: u16) -> State<'static, u8> {
    let k: u8 = kani::any();
    kani::assume(k < 8);
    match k {
        0 => NormalKey { keycode: vk_any_keycode(), coord: vk_any_coord(ncol), flags: NormalKeyFlags(kani::any::<u8>() & 3) },
        1 => LayerModifier { value: { let v: usize = kani::any(); kani::assume(v < 3); v }, coord: vk_any_coord(ncol) },
        2 => State::Custom { value: &VK_CUSTOM_VALS[if kani::any() { 0 } else { 1 }], coord: vk_any_coord(ncol) },
        3 => FakeKey { keycode: vk_any_keycode() },
        4 => RepeatingSequence { sequence: &VK_SEQ_EVENTS, coord: vk_any_coord(ncol) },
        5 => SeqCustomPending(&VK_CUSTOM_VALS[0]),
        6 => SeqCustomActive(&VK_CUSTOM_VALS[1]),
        _ => Tombstone,
    }
}

/// Field-for-field what `Layout::new` builds, written as a struct literal so that the only loop of the
/// constructor (`array::from_fn` in `MultiKeyBuffer::new`) is avoided.  Adding a field to `Layout` makes
/// this fail to compile (reported as build-error = inconclusive), so it cannot silently go stale.
#[allow(dead_code)]
pub fn vk_layout_literal<'a, const C: usize, const R: usize>(
    src_keys: &'a [Action<'a, u8>; C],
    layers: &'a [[[Action<'a, u8>; C]; R]],
) -> Layout<'a, C, R, u8> {
    Layout {
        src_keys,
        layers,
        default_layer: 0,
        states: Vec::new(),
        waiting: None,
        extra_waiting: ArrayDeque::new(),
        tap_dance_eager: None,
        queue: ArrayDeque::new(),
        oneshot: OneShotState {
            timeout: 0,
            end_config: OneShotEndConfig::EndOnFirstPress,
            keys: ArrayDeque::new(),
            released_keys: ArrayDeque::new(),
            other_pressed_keys: ArrayDeque::new(),
            release_on_next_tick: false,
            pause_input_processing_delay: 0,
            pause_input_processing_ticks: 0,
            ticks_to_ignore_events: 0,
        },
        last_press_tracker: Default::default(),
        active_sequences: ArrayDeque::new(),
        action_queue: ArrayDeque::new(),
        rpt_action: None,
        historical_keys: History::new(),
        historical_inputs: History::new(),
        rpt_multikey_key_buffer: crate::multikey_buffer::verif_kani::vk_mkb_new(),
        quick_tap_hold_timeout: false,
        trans_resolution_behavior_v2: true,
        delegate_to_first_layer: false,
        chords_v2: None,
    }
}

/// `vk_layout_literal` on the static table, then `n <= MAX` symbolic states
/// pushed through the real `Vec::push`.
#[allow(dead_code)]
pub(super) fn vk_layout_with_states<const MAX: usize>(ncol: u16) -> (Layout<'static, 3, 2, u8>, usize) {
    let mut l: Layout<'static, 3, 2, u8> = vk_layout_literal(&VK_SRC, &VK_LAYERS);
    l.trans_resolution_behavior_v2 = kani::any();
    l.delegate_to_first_layer = kani::any();
    let dl: usize = kani::any();
    kani::assume(dl < 3);
    l.default_layer = dl;
    let n: usize = kani::any();
    kani::assume(n <= MAX);
    let mut k = 0;
    while k < MAX {
        if k < n {
            let _ = l.states.push(vk_any_state(ncol));
        }
        k += 1;
    }
    (l, n)
}

#[allow(dead_code)]
pub(super) fn vk_state_eq(a: &State<'static, u8>, b: &State<'static, u8>) -> bool {
    match (a, b) {
        (NormalKey { keycode: k1, coord: c1, flags: f1 }, NormalKey { keycode: k2, coord: c2, flags: f2 }) => k1 == k2 && c1 == c2 && f1 == f2,
        (LayerModifier { value: v1, coord: c1 }, LayerModifier { value: v2, coord: c2 }) => v1 == v2 && c1 == c2,
        (State::Custom { value: v1, coord: c1 }, State::Custom { value: v2, coord: c2 }) => core::ptr::eq(*v1, *v2) && c1 == c2,
        (FakeKey { keycode: k1 }, FakeKey { keycode: k2 }) => k1 == k2,
        (RepeatingSequence { coord: c1, .. }, RepeatingSequence { coord: c2, .. }) => c1 == c2,
        (SeqCustomPending(v1), SeqCustomPending(v2)) => core::ptr::eq(*v1, *v2),
        (SeqCustomActive(v1), SeqCustomActive(v2)) => core::ptr::eq(*v1, *v2),
        (Tombstone, Tombstone) => true,
        _ => false,
    }
}

/// For harnesses in dependent crates: run `f` on a `QueuedIter` over a queue holding `events` (in order).
pub fn vk_with_queued_iter<R>(events: &[(Event, u16)], f: impl FnOnce(QueuedIter) -> R) -> R {
    let mut q = Queue::new();
    let mut i = 0;
    while i < events.len() {
        let _ = q.push_back(Queued { event: events[i].0, since: events[i].1 });
        i += 1;
    }
    f(QueuedIter(q.iter()))
}
