// Shared helpers for the in-crate keyberon::layout harnesses.
// This file is include!()-ed into a child module of keyberon::layout in the mirror,
// so every private item of layout.rs is visible through `use super::*`.

#[allow(dead_code)]
pub(super) fn vk_any_event(ncoord: u16) -> Event {
    let j: u16 = kani::any();
    kani::assume(j < ncoord);
    if kani::any() {
        Event::Press(0, j)
    } else {
        Event::Release(0, j)
    }
}

/// A queue holding `n <= MAXLEN` symbolic events over coordinates (0, 0..ncoord),
/// built through the real `push_back` so the ArrayDeque representation is the real one.
#[allow(dead_code)]
pub(super) fn vk_any_queue<const MAXLEN: usize>(ncoord: u16) -> (Queue, usize) {
    let mut q = Queue::new();
    let n: usize = kani::any();
    kani::assume(n <= MAXLEN);
    let mut k = 0;
    while k < MAXLEN {
        if k < n {
            let _ = q.push_back(Queued {
                event: vk_any_event(ncoord),
                since: kani::any(),
            });
        }
        k += 1;
    }
    (q, n)
}

#[allow(dead_code)]
pub(super) static VK_NOOP: Action<'static, u8> = Action::NoOp;
#[allow(dead_code)]
pub(super) static VK_HOLD: Action<'static, u8> = Action::KeyCode(KeyCode::LShift);
#[allow(dead_code)]
pub(super) static VK_TAP: Action<'static, u8> = Action::KeyCode(KeyCode::A);
#[allow(dead_code)]
pub(super) static VK_TIMEOUT: Action<'static, u8> = Action::KeyCode(KeyCode::LCtrl);

#[allow(dead_code)]
pub(super) fn vk_waiting_holdtap(cfg: HoldTapConfig<'static>, coord: KCoord) -> WaitingState<'static, u8> {
    WaitingState {
        coord,
        timeout: kani::any(),
        delay: kani::any(),
        ticks: kani::any(),
        hold: &VK_HOLD,
        tap: &VK_TAP,
        timeout_action: &VK_TIMEOUT,
        config: WaitingConfig::HoldTap(cfg),
        layer_stack: Vec::new(),
        prev_queue_len: kani::any(),
    }
}
