// C09 (chords v1): table lookups, `handle_chord` (order independence, exact set, not swallowed)
// and `decompose_chord_into_action_queue`.

static VK_CH_X: Action<'static, u8> = Action::KeyCode(KeyCode::X);
static VK_CH_Y: Action<'static, u8> = Action::KeyCode(KeyCode::Y);
static VK_CH_Z: Action<'static, u8> = Action::KeyCode(KeyCode::Z);
static VK_CH_W: Action<'static, u8> = Action::KeyCode(KeyCode::W);

// keys a=(0,0) b=(0,1) c=(0,2); (0,3) is not a chord key
static VK_CH_COORDS: [((u8, u16), ChordKeys); 3] = [((0, 0), 1), ((0, 1), 2), ((0, 2), 4)];
// group 1: ab -> X, abc -> Y, c -> Z      (ab is a strict sub-chord of abc)
static VK_CH_CHORDS1: [(ChordKeys, &Action<'static, u8>); 3] = [(3, &VK_CH_X), (7, &VK_CH_Y), (4, &VK_CH_Z)];
static VK_CH_GROUP1: ChordsGroup<'static, u8> = ChordsGroup { coords: &VK_CH_COORDS, chords: &VK_CH_CHORDS1, timeout: 50 };
// group 2: ab -> X, c -> Z, b -> W        (abc undefined: must decompose)
static VK_CH_CHORDS2: [(ChordKeys, &Action<'static, u8>); 3] = [(3, &VK_CH_X), (4, &VK_CH_Z), (2, &VK_CH_W)];
static VK_CH_GROUP2: ChordsGroup<'static, u8> = ChordsGroup { coords: &VK_CH_COORDS, chords: &VK_CH_CHORDS2, timeout: 50 };

// @harness name=c09_k1_lookups prop=C09 tier=quick timeout=900
// @encodes ChordsGroup::get_keys, ChordsGroup::get_chord, ChordsGroup::get_chord_if_unambiguous
// @bounds group with 3 coordinates and 4 chords whose masks are symbolic (< 8, pairwise distinct); query mask symbolic < 8; query coordinate symbolic over 4 columns
// @assumes chord masks pairwise distinct and non-zero (parser rejects duplicate key sets)
// @spec get_keys = mask of the coordinate or None; get_chord = the action registered for exactly that mask; get_chord_if_unambiguous = that action iff no other defined chord is a strict superset of the mask
#[kani::proof]
#[kani::unwind(6)]
fn c09_k1_lookups() {
    let acts: [&Action<'static, u8>; 4] = [&VK_CH_X, &VK_CH_Y, &VK_CH_Z, &VK_CH_W];
    let m: [ChordKeys; 4] = [kani::any(), kani::any(), kani::any(), kani::any()];
    let mut i = 0;
    while i < 4 {
        kani::assume(m[i] > 0 && m[i] < 8);
        let mut j = 0;
        while j < i {
            kani::assume(m[i] != m[j]);
            j += 1;
        }
        i += 1;
    }
    let chords = [(m[0], acts[0]), (m[1], acts[1]), (m[2], acts[2]), (m[3], acts[3])];
    let g: ChordsGroup<'_, u8> = ChordsGroup { coords: &VK_CH_COORDS, chords: &chords, timeout: 10 };
    let y: u16 = kani::any();
    kani::assume(y < 4);
    match g.get_keys((0, y)) {
        Some(k) => assert!(y < 3 && k == (1u128 << y)),
        None => assert!(y == 3),
    }
    assert!(g.get_keys((1, y)).is_none());
    let keys: ChordKeys = kani::any();
    kani::assume(keys < 8);
    let mut exact: Option<usize> = None;
    let mut superset = false;
    let mut k = 0;
    while k < 4 {
        if m[k] == keys {
            exact = Some(k);
        } else if m[k] & keys == keys {
            superset = true;
        }
        k += 1;
    }
    match g.get_chord(keys) {
        Some(a) => assert!(exact.is_some() && a as *const _ == acts[exact.unwrap()] as *const _),
        None => assert!(exact.is_none()),
    }
    match g.get_chord_if_unambiguous(keys) {
        Some(a) => assert!(!superset && exact.is_some() && a as *const _ == acts[exact.unwrap()] as *const _),
        None => assert!(superset || exact.is_none()),
    }
    kani::cover!(exact.is_some() && superset, "defined chord that a longer chord extends");
    kani::cover!(exact.is_some() && !superset, "unambiguous chord");
    kani::cover!(exact.is_none() && keys != 0, "undefined combination");
}

/// Stub used (via #[kani::stub]) by the handle_chord harnesses: the decomposition is verified on its own
/// (c09_k3_decompose*), here it only records that it was invoked.
static mut VK_C09_DECOMPOSED: u8 = 0;
fn vk_c09_decompose_stub<'a, T: 'a + std::fmt::Debug>(
    _w: &mut WaitingState<'a, T>,
    _config: &'a ChordsGroup<'a, T>,
    _queued: &Queue,
    _action_queue: &mut ActionQueue<'a, T>,
) {
    unsafe {
        VK_C09_DECOMPOSED += 1;
    }
}

fn vk_c09_waiting(group: &'static ChordsGroup<'static, u8>, coord: KCoord) -> WaitingState<'static, u8> {
    WaitingState {
        coord,
        timeout: kani::any(),
        delay: kani::any(),
        ticks: kani::any(),
        hold: &VK_NOOP,
        tap: &VK_NOOP,
        timeout_action: &VK_NOOP,
        config: WaitingConfig::Chord(group),
        layer_stack: Vec::new(),
        prev_queue_len: kani::any(),
    }
}

fn vk_c09_clone_waiting(w: &WaitingState<'static, u8>, group: &'static ChordsGroup<'static, u8>) -> WaitingState<'static, u8> {
    WaitingState {
        coord: w.coord,
        timeout: w.timeout,
        delay: w.delay,
        ticks: w.ticks,
        hold: w.hold,
        tap: w.tap,
        timeout_action: w.timeout_action,
        config: WaitingConfig::Chord(group),
        layer_stack: Vec::new(),
        prev_queue_len: w.prev_queue_len,
    }
}

fn vk_c09_count_press(q: &Queue, y: u16) -> usize {
    let mut n = 0;
    let mut i = 0;
    while i < q.len() {
        if q[i].event == Event::Press(0, y) {
            n += 1;
        }
        i += 1;
    }
    n
}

/// Run handle_chord (through tick_wt) on `q` and on `q` with the keys of two presses exchanged
/// (either two queued presses, or the chord-starting key and a queued press); timing stays by position.
fn vk_c09_order<const N: usize>(group: &'static ChordsGroup<'static, u8>) {
    let start: u16 = kani::any();
    kani::assume(start < 3);
    let mut w1 = vk_c09_waiting(group, (0, start));
    // all queued events lie inside the chord window (an event outside it is not part of the chord,
    // and which key that is does depend on the order)
    kani::assume(w1.delay == 0);
    let mut w2 = vk_c09_clone_waiting(&w1, group);
    // queue over the 3 chord keys and one non-chord key
    let mut q1 = Queue::new();
    let mut q2 = Queue::new();
    let n: usize = kani::any();
    kani::assume(n >= 1 && n <= N);
    let a: usize = kani::any(); // first swapped position; N means "the chord-starting key"
    let b: usize = kani::any();
    kani::assume(b < n && (a < b || a == N));
    let mut evs: [Event; N] = [Event::Press(0, 0); N];
    let mut sinces: [u16; N] = [0; N];
    let mut k = 0;
    while k < N {
        if k < n {
            evs[k] = vk_any_event(4);
            sinces[k] = kani::any();
            // everything up to and including the later swapped position is a chord-key press
            if k <= b {
                kani::assume(matches!(evs[k], Event::Press(0, y) if y < 3));
            }
        }
        k += 1;
    }
    let mut evs2 = evs;
    if a == N {
        let yb = evs[b].coord().1;
        evs2[b] = Event::Press(0, start);
        w2.coord = (0, yb);
    } else {
        let t = evs2[a];
        evs2[a] = evs2[b];
        evs2[b] = t;
    }
    k = 0;
    while k < N {
        if k < n {
            let _ = q1.push_back(Queued { event: evs[k], since: sinces[k] });
            let _ = q2.push_back(Queued { event: evs2[k], since: sinces[k] });
        }
        k += 1;
    }
    let mut aq1: ActionQueue<'static, u8> = ArrayDeque::new();
    let mut aq2: ActionQueue<'static, u8> = ArrayDeque::new();
    let r1 = w1.tick_wt(&mut q1, &mut aq1);
    let r2 = w2.tick_wt(&mut q2, &mut aq2);
    let a1 = r1.as_ref().map(|x| x.0);
    let a2 = r2.as_ref().map(|x| x.0);
    assert!(a1 == a2, "press order must not change whether / how the chord resolves");
    assert!(w1.tap as *const _ == w2.tap as *const _, "press order must not change which chord action is chosen");
    assert!(q1.len() == q2.len());
    let mut y = 0u16;
    while y < 4 {
        assert!(vk_c09_count_press(&q1, y) == vk_c09_count_press(&q2, y) || a == N,
            "the same presses are consumed regardless of order");
        y += 1;
    }
    kani::cover!(a1 == Some(WaitingAction::Tap) && w1.tap as *const _ == &VK_CH_Y as *const _ , "three-key chord fires");
    kani::cover!(a1 == Some(WaitingAction::Tap) && w1.tap as *const _ == &VK_CH_X as *const _ , "two-key chord fires");
    kani::cover!(a1.is_none(), "still pending");
    kani::cover!(a == N && a1 == Some(WaitingAction::Tap), "starting key exchanged");
}

// @harness name=c09_k2_order_g1 prop=C09 tier=quick timeout=1500
// @flags -Z stubbing
// @stubs WaitingState::decompose_chord_into_action_queue -> counter-only stub (the decomposition is checked by c09_k3_decompose*)
// @encodes WaitingState::tick_wt (Chord arm), WaitingState::handle_chord, ChordsGroup lookups, decompose_chord_into_action_queue (reached on abort without match)
// @bounds constant group {ab->X, abc->Y, c->Z} over keys a,b,c plus one non-chord key; queue of 1..=3 symbolic events; two press positions (or the starting key and a press) exchanged, chosen symbolically; timeout/delay/ticks/prev_queue_len/since unconstrained
// @assumes all events up to the later exchanged position are presses of chord keys (the exchange stays inside the run of chord presses); delay == 0 (every queued event is inside the chord window)
// @spec relational: same WaitingAction, same chosen chord action, same number of queued events consumed per key, for both press orders
#[kani::proof]
#[kani::unwind(6)]
#[kani::stub(WaitingState::decompose_chord_into_action_queue, vk_c09_decompose_stub)]
fn c09_k2_order_g1() {
    vk_c09_order::<3>(&VK_CH_GROUP1);
}

/// Exact-set / not-swallowed clauses on one run.
fn vk_c09_exact<const N: usize>(group: &'static ChordsGroup<'static, u8>) -> (Option<WaitingAction>, ChordKeys, bool, bool) {
    let start: u16 = kani::any();
    kani::assume(start < 3);
    let mut w = vk_c09_waiting(group, (0, start));
    // keep all queued events inside the chord window so the mask reference below is simply "all presses before the first abort"
    kani::assume(w.delay == 0);
    let (mut q, n) = vk_any_queue::<N>(4);
    let q0: [Option<Queued>; N] = {
        let mut t = [None; N];
        let mut i = 0;
        while i < n {
            t[i] = Some(q[i]);
            i += 1;
        }
        t
    };
    let t0 = w.timeout;
    let p0 = w.prev_queue_len;
    // reference mask: starting key plus chord-key presses up to the first abort event
    let mut mask: ChordKeys = 1u128 << start;
    let mut aborted = false;
    let mut handled = 0usize;
    let mut rel: Option<KCoord> = None;
    let mut i = 0;
    while i < n {
        if !aborted {
            match q0[i].unwrap().event {
                Event::Press(_, y) if y < 3 => {
                    mask |= 1u128 << y;
                    handled += 1;
                }
                Event::Press(..) => aborted = true,
                Event::Release(x, y) if y < 3 => {
                    aborted = true;
                    rel = Some((x, y));
                }
                Event::Release(..) => {}
            }
        }
        i += 1;
    }
    let mut aq: ActionQueue<'static, u8> = ArrayDeque::new();
    let r = w.tick_wt(&mut q, &mut aq);
    let t1 = t0.saturating_sub(1);
    let fast = n as u8 == p0 && t1 > 0;
    let timed_out = t1 == 0;
    let ra = r.as_ref().map(|x| x.0);
    if fast {
        assert!(ra.is_none() && q.len() == n && aq.is_empty());
    } else {
        let ends = aborted || timed_out;
        let exact = group.get_chord(mask);
        let unamb = group.get_chord_if_unambiguous(mask);
        if !ends {
            match unamb {
                Some(act) => assert!(ra == Some(WaitingAction::Tap) && w.tap as *const _ == act as *const _),
                None => assert!(ra.is_none() && q.len() == n),
            }
        } else {
            match exact {
                Some(act) => {
                    assert!(ra == Some(WaitingAction::Tap) && w.tap as *const _ == act as *const _, "the chord for exactly the pressed set");
                    assert!(aq.is_empty() && unsafe { VK_C09_DECOMPOSED } == 0);
                }
                None => {
                    assert!(ra == Some(WaitingAction::NoOp));
                    assert!(unsafe { VK_C09_DECOMPOSED } == 1, "undefined set => decomposition (verified separately) is invoked once");
                }
            }
        }
        if ra.is_some() {
            // consumed: exactly the chord-key presses that entered the mask; everything else keeps its order
            assert!(q.len() == n - handled);
            let mut qi = 0;
            let mut seen = 0;
            let mut j = 0;
            while j < n {
                let e = q0[j].unwrap();
                let is_chord_press = matches!(e.event, Event::Press(_, y) if y < 3);
                if is_chord_press && seen < handled {
                    seen += 1;
                } else {
                    assert!(q[qi].event == e.event && q[qi].since == e.since, "non-participating events are not swallowed or reordered");
                    qi += 1;
                }
                j += 1;
            }
            if let (Some(c), true) = (rel, ra == Some(WaitingAction::Tap)) {
                assert!(w.coord == c, "a chord ended by a release is bound to the released key");
            }
            if let Some((_, Some(pq))) = &r {
                assert!(pq.len() == 1 + handled);
            }
        }
    }
    (ra, mask, aborted || timed_out, fast)
}

// @harness name=c09_k3_exact_g1 prop=C09 tier=quick timeout=1500
// @flags -Z stubbing
// @stubs WaitingState::decompose_chord_into_action_queue -> counter-only stub (the decomposition is checked by c09_k3_decompose*)
// @encodes WaitingState::tick_wt (Chord arm), handle_chord, decompose_chord_into_action_queue
// @bounds group {ab->X, abc->Y, c->Z}; queue <= 3 symbolic events over 3 chord keys + 1 other key; timeout/ticks/prev_queue_len/since unconstrained; delay = 0
// @assumes delay == 0 (no queued event falls outside the chord window)
// @spec pending iff not ended and the pressed set is ambiguous; on end the action registered for exactly the pressed set fires (Tap), else NoOp + decomposition into defined chords only; exactly the participating presses are consumed, all other queued events keep order and timing; a chord ended by a release is re-bound to the released key
#[kani::proof]
#[kani::unwind(6)]
#[kani::stub(WaitingState::decompose_chord_into_action_queue, vk_c09_decompose_stub)]
fn c09_k3_exact_g1() {
    let (ra, mask, ended, fast) = vk_c09_exact::<3>(&VK_CH_GROUP1);
    kani::cover!(ra == Some(WaitingAction::Tap) && mask == 7, "abc fires");
    kani::cover!(ra == Some(WaitingAction::Tap) && mask == 3 && ended, "ab fires on abort/timeout");
    kani::cover!(ra.is_none() && mask == 3 && !fast, "ab waits for a possible c");
    kani::cover!(ra == Some(WaitingAction::NoOp), "undefined set is handed to decomposition");
}

// @harness name=c09_k3_exact_g2 prop=C09 tier=quick timeout=1500
// @flags -Z stubbing
// @stubs WaitingState::decompose_chord_into_action_queue -> counter-only stub (the decomposition is checked by c09_k3_decompose*)
// @encodes WaitingState::tick_wt (Chord arm), handle_chord, decompose_chord_into_action_queue
// @bounds group {ab->X, c->Z, b->W} (abc undefined); queue <= 3 symbolic events; delay = 0
// @assumes delay == 0
// @spec as c09_k3_exact_g1
#[kani::proof]
#[kani::unwind(6)]
#[kani::stub(WaitingState::decompose_chord_into_action_queue, vk_c09_decompose_stub)]
fn c09_k3_exact_g2() {
    let (ra, mask, _ended, _fast) = vk_c09_exact::<3>(&VK_CH_GROUP2);
    kani::cover!(ra == Some(WaitingAction::NoOp) && mask == 7, "abc is handed to decomposition");
    kani::cover!(ra == Some(WaitingAction::Tap) && mask == 3, "ab fires at once (unambiguous)");
}

/// Runs the real decomposition on (w, q) and compares the queued actions with the greedy
/// largest-prefix reference.  Returns (number of actions, number of distinct keys in press order).
fn vk_c09_decompose_check(w: &mut WaitingState<'static, u8>, group: &'static ChordsGroup<'static, u8>, start: u16, q: &Queue) -> (usize, usize) {
    let n = q.len();
    // press order of distinct chord keys until the first abort
    let mut order: [ChordKeys; 4] = [0; 4];
    let mut len = 1usize;
    order[0] = 1u128 << start;
    let mut active = order[0];
    let mut aborted = false;
    let mut i = 0;
    while i < n {
        // an event that arrived more than the chord timeout after the chord's first key is not part of it
        let outside = w.delay.saturating_sub(q[i].since) > w.timeout;
        if !aborted && !outside {
            match q[i].event {
                Event::Press(_, y) if y < 3 => {
                    let m = 1u128 << y;
                    if active | m != active {
                        order[len] = m;
                        len += 1;
                    }
                    active |= m;
                }
                Event::Press(..) => aborted = true,
                Event::Release(_, y) if y < 3 => aborted = true,
                Event::Release(..) => {}
            }
        }
        i += 1;
    }
    let mut aq: ActionQueue<'static, u8> = ArrayDeque::new();
    w.decompose_chord_into_action_queue(group, q, &mut aq);
    // reference greedy decomposition
    let mut expect: [Option<&'static Action<'static, u8>>; 4] = [None; 4];
    let mut ne = 0usize;
    let mut s = 0usize;
    while s < len {
        let mut e = len;
        let mut found = false;
        while e > s && !found {
            let mut m: ChordKeys = 0;
            let mut k = s;
            while k < e {
                m |= order[k];
                k += 1;
            }
            if let Some(act) = group.get_chord(m) {
                expect[ne] = Some(act);
                ne += 1;
                found = true;
            } else {
                e -= 1;
            }
        }
        s = if found { e } else { s + 1 };
    }
    assert!(aq.len() == ne);
    let mut j = 0;
    while j < ne {
        match aq[j] {
            Some((c, d, act)) => {
                assert!(act as *const _ == expect[j].unwrap() as *const _, "sub-chords fire in press order, longest defined prefix first");
                assert!(c.0 == 0 && c.1 < 4);
                assert!(d == w.delay + w.ticks);
            }
            None => assert!(false),
        }
        j += 1;
    }
    (ne, len)
}

// @harness name=c09_k3_decompose prop=PARKED tier=thorough timeout=3000
// @note runs out of memory with 3 fully symbolic queued events; the 2-press version c09_k3_decompose_small is the registered one
// @encodes WaitingState::decompose_chord_into_action_queue
// @bounds group {ab->X, c->Z, b->W}; starting key symbolic; queue of <= 3 symbolic events over chord keys + 1 other; delay = 0
// @assumes delay == 0
// @spec the queued actions are the greedy largest-prefix decomposition of the press order: repeatedly the longest run of consecutively pressed keys (from the current position) that is a defined chord; keys with no defined run are skipped; order of actions = press order
#[kani::proof]
#[kani::unwind(6)]
fn c09_k3_decompose() {
    let group: &'static ChordsGroup<'static, u8> = &VK_CH_GROUP2;
    let start: u16 = kani::any();
    kani::assume(start < 3);
    let mut w = vk_c09_waiting(group, (0, start));
    kani::assume(w.delay == 0);
    let (q, _n) = vk_any_queue::<3>(4);
    let (ne, len) = vk_c09_decompose_check(&mut w, group, start, &q);
    kani::cover!(ne == 2 && len == 3, "abc -> ab + c");
    kani::cover!(ne == 1 && len == 2, "one of two keys has no chord");
    kani::cover!(ne == 0, "nothing defined");
}

// @harness name=c09_k3_decompose_small prop=C09,C02 tier=quick timeout=2400
// @unwind_ok the decomposition loops run at most (number of distinct pressed keys = 3) + 1 iterations; unwind 5 suffices on terminating code
// @encodes WaitingState::decompose_chord_into_action_queue
// @bounds group {ab->X, c->Z, b->W} (abc, ac, bc, a undefined); starting key a; exactly 2 queued presses with symbolic chord-key coordinates (9 press orders) and symbolic ages; symbolic timeout / delay / ticks
// @assumes delay + ticks <= 65535 (checked add in dev builds)
// @spec as c09_k3_decompose
#[kani::proof]
#[kani::unwind(5)]
fn c09_k3_decompose_small() {
    let group: &'static ChordsGroup<'static, u8> = &VK_CH_GROUP2;
    let mut w = vk_c09_waiting(group, (0, 0));
    kani::assume(w.delay as u32 + w.ticks as u32 <= u16::MAX as u32);
    let mut q = Queue::new();
    let y1: u16 = kani::any();
    let y2: u16 = kani::any();
    kani::assume(y1 < 3 && y2 < 3);
    // symbolic ages: a queued press may lie outside the chord window (delay - since > timeout)
    let _ = q.push_back(Queued { event: Event::Press(0, y1), since: kani::any() });
    let _ = q.push_back(Queued { event: Event::Press(0, y2), since: kani::any() });
    let (ne, len) = vk_c09_decompose_check(&mut w, group, 0, &q);
    kani::cover!(ne == 2 && len == 3 && y1 == 1, "a b c -> ab + c");
    kani::cover!(ne == 2 && len == 3 && y1 == 2, "a c b -> c + b (a has no chord)");
    kani::cover!(ne == 1 && len == 2, "two keys, one action");
    kani::cover!(ne == 0, "nothing defined");
    kani::cover!(len == 2 && y1 != 0 && y2 != 0 && y1 != y2, "a queued press outside the chord window is ignored");
}
