// C17-K1/K2: lazy tap-dance counting (`handle_tap_dance`) and the surrounding step in `tick_wt`
// (action selection, timeout restart).  C17-K3: the eager tap-dance timer.

static VK_TD_A0: Action<'static, u8> = Action::KeyCode(KeyCode::A);
static VK_TD_A1: Action<'static, u8> = Action::KeyCode(KeyCode::B);
static VK_TD_A2: Action<'static, u8> = Action::KeyCode(KeyCode::C);
static VK_TD_ACTS: [&Action<'static, u8>; 3] = [&VK_TD_A0, &VK_TD_A1, &VK_TD_A2];

fn vk_c17_lazy<const N: usize>() {
    let own: KCoord = (0, 0);
    let len: usize = kani::any();
    kani::assume(len <= 3); // the parser also accepts an EMPTY action list: `(tap-dance 200 ())`
    let actions: &'static [&'static Action<'static, u8>] = &VK_TD_ACTS[..len];
    let cfg_timeout: u16 = kani::any();
    let stored_taps: u16 = kani::any();
    kani::assume(stored_taps >= 1 && stored_taps <= 5);
    let mut w: WaitingState<'static, u8> = WaitingState {
        coord: own,
        timeout: kani::any(),
        delay: kani::any(),
        ticks: kani::any(),
        hold: &VK_NOOP,
        tap: &VK_NOOP,
        timeout_action: &VK_NOOP,
        config: WaitingConfig::TapDance(TapDanceState { actions, timeout: cfg_timeout, num_taps: stored_taps }),
        layer_stack: Vec::new(),
        prev_queue_len: kani::any(),
    };
    let (mut q, n) = vk_any_queue::<N>(2);
    let mut aq: ActionQueue<'static, u8> = ArrayDeque::new();
    let t0 = w.timeout;
    let p0 = w.prev_queue_len;

    // reference: scan the queue as the documentation describes
    let mut own_presses_before_foreign: u16 = 0;
    let mut foreign_press = false;
    let mut total_own_releases: u16 = 0;
    let mut foreign: [Option<Queued>; N] = [None; N];
    let mut nforeign = 0usize;
    let mut i = 0;
    while i < n {
        let e = q[i];
        let is_own = e.event.coord() == own;
        if is_own && e.event.is_press() {
            if !foreign_press {
                own_presses_before_foreign += 1;
            }
        } else if is_own {
            total_own_releases += 1;
        } else {
            if e.event.is_press() {
                foreign_press = true;
            }
            foreign[nforeign] = Some(e);
            nforeign += 1;
        }
        i += 1;
    }
    let counted: u16 = 1 + own_presses_before_foreign;

    let r = w.tick_wt(&mut q, &mut aq);

    let t1: u16 = t0.saturating_sub(1);
    let fast = (n as u8 == p0) && t1 > 0;
    let ra = r.as_ref().map(|x| x.0);
    let new_taps = match w.config {
        WaitingConfig::TapDance(t) => t.num_taps,
        _ => {
            assert!(false, "config kind changed");
            0
        }
    };
    assert!(aq.is_empty());
    assert!(ra.is_none() || ra == Some(WaitingAction::Tap), "a tap-dance only ever resolves to its (selected) tap action");
    if fast {
        assert!(ra.is_none() && new_taps == stored_taps && q.len() == n && w.timeout == t1);
    } else {
        let (expect_fire, expect_taps) = if t1 == 0 {
            (true, stored_taps) // timeout: the count reached so far stands
        } else if foreign_press {
            (true, counted) // another key interrupts the dance
        } else if counted as usize >= len {
            (true, counted) // list exhausted
        } else {
            (false, counted)
        };
        assert!(ra.is_some() == expect_fire);
        assert!(new_taps == expect_taps);
        if expect_fire {
            // exactly the action for the number of taps (the last one if the list is shorter)
            if len == 0 {
                assert!(w.tap as *const _ == &VK_NOOP as *const _, "an empty tap-dance acts as a no-op key");
            } else {
                let idx = core::cmp::min(expect_taps as usize, len) - 1;
                assert!(w.tap as *const _ == VK_TD_ACTS[idx] as *const _);
            }
            // queue afterwards: no own press; all but (taps-1) own releases; foreign events intact, in order
            let mut own_rel_left: u16 = 0;
            let mut fi = 0usize;
            let mut j = 0;
            while j < q.len() {
                let e = q[j];
                if e.event.coord() == own {
                    assert!(e.event.is_release(), "own presses are folded into the single chosen press");
                    own_rel_left += 1;
                } else {
                    assert!(fi < nforeign);
                    let f = foreign[fi].unwrap();
                    assert!(f.event == e.event && f.since == e.since, "interrupting keys keep their order");
                    fi += 1;
                }
                j += 1;
            }
            assert!(fi == nforeign, "no interrupting key is lost");
            assert!(own_rel_left == total_own_releases.saturating_sub(expect_taps.saturating_sub(1)));
        } else {
            assert!(q.len() == n);
            assert!(w.tap as *const _ == &VK_NOOP as *const _);
        }
        // the timeout restarts exactly when the count grew
        if expect_taps > stored_taps {
            assert!(w.timeout == cfg_timeout);
        } else {
            assert!(w.timeout == t1);
        }
        assert!(w.prev_queue_len == q.len() as u8);
    }
    kani::cover!(ra.is_some() && t1 == 0, "fires on timeout");
    kani::cover!(ra.is_some() && t1 > 0 && foreign_press, "fires on interrupting key");
    kani::cover!(ra.is_some() && t1 > 0 && !foreign_press, "fires on exhausted list");
    kani::cover!(ra.is_none() && !fast && new_taps > stored_taps, "counts a further tap and restarts the timeout");
    kani::cover!(ra.is_some() && new_taps as usize > len, "more taps than actions");
    kani::cover!(ra.is_some() && q.len() + 3 <= n, "evicts several own events");
    kani::cover!(ra.is_some() && len == 0, "empty action list fires without crashing");
}

// @harness name=c17_k1_lazy prop=C17,C02 tier=quick timeout=900
// @encodes WaitingState::tick_wt (TapDance arm), WaitingState::handle_tap_dance, is_corresponding_press/release
// @bounds queue <= 3 symbolic events over the dance key and one other key; 0..=3 actions (the parser accepts an empty list); stored tap count 1..=5; all timing scalars unconstrained
// @assumes stored tap count >= 1 (set to 1 on creation, only grows)
// @spec count = 1 + own presses before the first foreign press; fires (Tap) iff timeout-1 == 0, or a foreign press is queued, or count >= list length; chosen action = actions[min(count,len)-1] (no-op for an empty list, never a crash); afterwards the queue has no own press, all but count-1 own releases, and the foreign events unchanged and in order; timeout restarts iff the count grew
#[kani::proof]
#[kani::unwind(5)]
fn c17_k1_lazy() {
    vk_c17_lazy::<3>();
}

// @harness name=c17_k1_lazy_q4 prop=C17 tier=thorough timeout=2400
// @encodes WaitingState::tick_wt (TapDance arm), WaitingState::handle_tap_dance
// @bounds queue <= 4 symbolic events over 2 keys; 1..=3 actions; stored count 1..=5
// @assumes as c17_k1_lazy
// @spec as c17_k1_lazy
#[kani::proof]
#[kani::unwind(6)]
fn c17_k1_lazy_q4() {
    vk_c17_lazy::<4>();
}

// @harness name=c17_k3_eager_timer prop=C17 tier=quick timeout=600
// @encodes TapDanceEagerState::tick_tde, is_expired, incr_taps, set_expired
// @bounds all fields symbolic; 1..=3 actions; num_taps <= 3
// @assumes num_taps <= actions.len() (incremented only while not expired)
// @spec a tick lowers the timer by one (saturating); expired iff timer == 0 or every action has been used; a further tap restores the configured timeout and uses the next action; set_expired expires
#[kani::proof]
#[kani::unwind(5)]
fn c17_k3_eager_timer() {
    let len: usize = kani::any();
    kani::assume(len >= 1 && len <= 3);
    let mut s: TapDanceEagerState<'static, u8> = TapDanceEagerState {
        coord: (0, kani::any()),
        actions: &VK_TD_ACTS[..len],
        timeout: kani::any(),
        orig_timeout: kani::any(),
        num_taps: kani::any(),
    };
    kani::assume(s.num_taps as usize <= len);
    let t0 = s.timeout;
    let n0 = s.num_taps;
    s.tick_tde();
    assert!(s.timeout == if t0 == 0 { 0 } else { t0 - 1 });
    assert!(s.num_taps == n0);
    assert!(s.is_expired() == (s.timeout == 0 || n0 as usize >= len));
    if !s.is_expired() {
        // what dequeue(Press) does for a repeated tap: perform actions[num_taps], then incr_taps
        assert!((s.num_taps as usize) < len);
        s.incr_taps();
        assert!(s.num_taps == n0 + 1 && s.timeout == s.orig_timeout);
        kani::cover!(true, "further tap reachable");
    }
    s.set_expired();
    assert!(s.is_expired());
}
