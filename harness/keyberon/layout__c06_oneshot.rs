// C06: the one-shot state machine `OneShotState` (handle_press / handle_release / tick_osh).

fn vk_c06_any_coords<const MAX: usize>(dq: &mut OneShotCoords, ncoord: u16) -> usize {
    let n: usize = kani::any();
    kani::assume(n <= MAX);
    let mut k = 0;
    while k < MAX {
        if k < n {
            let y: u16 = kani::any();
            kani::assume(y < ncoord);
            let _ = dq.push_back((0, y));
        }
        k += 1;
    }
    n
}

fn vk_c06_any_end_config() -> OneShotEndConfig {
    let k: u8 = kani::any();
    kani::assume(k < 4);
    match k {
        0 => OneShotEndConfig::EndOnFirstPress,
        1 => OneShotEndConfig::EndOnFirstPressOrRepress,
        2 => OneShotEndConfig::EndOnFirstRelease,
        _ => OneShotEndConfig::EndOnFirstReleaseOrRepress,
    }
}

/// Arbitrary one-shot table: <= 3 active keys, <= 3 deferred releases, <= 2 recorded other presses,
/// coordinates over 5 columns, every scalar unconstrained.
fn vk_c06_any_state() -> OneShotState {
    let mut s = OneShotState {
        keys: ArrayDeque::new(),
        released_keys: ArrayDeque::new(),
        other_pressed_keys: ArrayDeque::new(),
        timeout: kani::any(),
        end_config: vk_c06_any_end_config(),
        release_on_next_tick: kani::any(),
        pause_input_processing_delay: kani::any(),
        pause_input_processing_ticks: kani::any(),
        ticks_to_ignore_events: kani::any(),
    };
    vk_c06_any_coords::<3>(&mut s.keys, 5);
    vk_c06_any_coords::<3>(&mut s.released_keys, 5);
    vk_c06_any_coords::<2>(&mut s.other_pressed_keys, 5);
    s
}

fn vk_c06_is_press_variant(c: OneShotEndConfig) -> bool {
    matches!(c, OneShotEndConfig::EndOnFirstPress | OneShotEndConfig::EndOnFirstPressOrRepress)
}
fn vk_c06_is_repress_variant(c: OneShotEndConfig) -> bool {
    matches!(c, OneShotEndConfig::EndOnFirstPressOrRepress | OneShotEndConfig::EndOnFirstReleaseOrRepress)
}

fn vk_c06_same(a: &OneShotCoords, b: &[KCoord; 3], n: usize) -> bool {
    if a.len() != n {
        return false;
    }
    let mut i = 0;
    let mut ok = true;
    while i < n {
        if a[i] != b[i] {
            ok = false;
        }
        i += 1;
    }
    ok
}

fn vk_c06_snapshot(a: &OneShotCoords) -> ([KCoord; 3], usize) {
    let mut t = [(0u8, 0u16); 3];
    let mut i = 0;
    while i < a.len() && i < 3 {
        t[i] = a[i];
        i += 1;
    }
    (t, a.len())
}

// @harness name=c06_k1_other_press prop=C06 tier=quick timeout=900
// @encodes OneShotState::handle_press(Other), OneShotState::tick_osh
// @bounds <= 3 active one-shot keys, <= 3 deferred releases, <= 2 recorded presses over 5 columns; all four end configs; every scalar unconstrained except rapid-event delay <= 2 for the termination loop
// @assumes pause_input_processing_delay <= 2 (only to bound the number of follow-up ticks the harness executes)
// @spec a non-one-shot press with one-shot keys active and events not ignored is modified by ALL active keys (returned set = active keys); press variants: the remaining timeout drops to min(rapid-event delay, timeout) and the one-shot ends (all deferred releases handed back, table empty) within that many ticks (at least 1); release variants: the key is recorded; with no active keys or while ignoring events nothing is modified or recorded
#[kani::proof]
#[kani::unwind(5)]
fn c06_k1_other_press() {
    let mut s = vk_c06_any_state();
    kani::assume(s.pause_input_processing_delay <= 2);
    let (keys0, nk) = vk_c06_snapshot(&s.keys);
    let (rel0, nr) = vk_c06_snapshot(&s.released_keys);
    let t0 = s.timeout;
    let nother0 = s.other_pressed_keys.len();
    let ign0 = s.ticks_to_ignore_events;
    let flag0 = s.release_on_next_tick;
    let y: u16 = kani::any();
    kani::assume(y < 5);
    let got = s.handle_press(OneShotHandlePressKey::Other((0, y)));
    let inert = nk == 0 || ign0 > 0;
    assert!(vk_c06_same(&s.keys, &keys0, nk), "active keys are not changed by another key's press");
    assert!(vk_c06_same(&s.released_keys, &rel0, nr));
    assert!(s.release_on_next_tick == flag0);
    if inert {
        assert!(got.is_empty());
        assert!(s.timeout == t0 && s.other_pressed_keys.len() == nother0);
    } else {
        assert!(vk_c06_same(&got, &keys0, nk), "the pressed key is modified by every active one-shot key");
        if vk_c06_is_press_variant(s.end_config) {
            let d = s.pause_input_processing_delay;
            assert!(s.timeout == core::cmp::min(d, t0));
            assert!(s.pause_input_processing_ticks == d);
            assert!(s.other_pressed_keys.len() == nother0);
            // it never lingers: ends within max(1, min(d, t0)) ticks, handing back every deferred release
            let bound = core::cmp::max(1, s.timeout);
            let mut ended = false;
            let mut k: u16 = 0;
            while k < 3 {
                if !ended && k < bound {
                    if let Some(released) = s.tick_osh() {
                        ended = true;
                        assert!(released.len() == nr);
                        let mut i = 0;
                        while i < nr {
                            assert!(released[i] == rel0[i]);
                            i += 1;
                        }
                        assert!(s.keys.is_empty() && s.released_keys.is_empty() && s.other_pressed_keys.is_empty());
                        assert!(s.timeout == 0 && !s.release_on_next_tick && s.pause_input_processing_ticks == 0 && s.ticks_to_ignore_events == 0);
                    }
                }
                k += 1;
            }
            assert!(ended, "press variants end within the rapid-event delay after the first other key press");
            // afterwards nothing is modified or deferred any more
            assert!(s.handle_press(OneShotHandlePressKey::Other((0, y))).is_empty());
            let (normal, ov) = s.handle_release((0, keys0[0].1));
            assert!(normal && ov.is_none());
            kani::cover!(nr == 2 && nk == 3, "several keys and deferred releases");
        } else {
            assert!(s.timeout == t0);
            assert!(s.other_pressed_keys.len() == nother0 + 1 && s.other_pressed_keys[nother0] == (0, y), "release variants remember which key was pressed while active");
            kani::cover!(true, "release variant records");
        }
    }
    kani::cover!(inert && nk > 0, "ignored while ticks_to_ignore_events > 0");
}

// @harness name=c06_k2_release prop=C06,C01 tier=quick timeout=900
// @encodes OneShotState::handle_release, OneShotState::tick_osh
// @bounds as c06_k1_other_press (no bound on the rapid-event delay)
// @assumes none beyond the container bounds
// @spec release of an active one-shot key is deferred (returns false) and appended to the deferred list; release of any other key is handled normally; only for the release variants and only if that key was pressed while the one-shot was active does it arm the end, and then the very next tick ends the one-shot and hands back every deferred release in order; with no active keys releases are always normal
#[kani::proof]
#[kani::unwind(5)]
fn c06_k2_release() {
    let mut s = vk_c06_any_state();
    let (keys0, nk) = vk_c06_snapshot(&s.keys);
    let (rel0, nr) = vk_c06_snapshot(&s.released_keys);
    let t0 = s.timeout;
    let flag0 = s.release_on_next_tick;
    let y: u16 = kani::any();
    kani::assume(y < 5);
    let c: KCoord = (0, y);
    let is_active = s.keys.contains(&c);
    let was_recorded = s.other_pressed_keys.contains(&c);
    let (normal, overflow) = s.handle_release(c);
    assert!(overflow.is_none(), "fewer than 16 deferred releases: nothing is evicted");
    assert!(vk_c06_same(&s.keys, &keys0, nk));
    assert!(s.timeout == t0);
    if nk == 0 {
        assert!(normal && s.release_on_next_tick == flag0 && s.released_keys.len() == nr);
    } else if is_active {
        assert!(!normal, "the release of an active one-shot key is deferred");
        assert!(s.released_keys.len() == nr + 1 && s.released_keys[nr] == c);
        assert!(s.release_on_next_tick == flag0);
    } else {
        assert!(normal);
        assert!(s.released_keys.len() == nr);
        let arms = !vk_c06_is_press_variant(s.end_config) && was_recorded;
        assert!(s.release_on_next_tick == (flag0 || arms));
        if arms {
            match s.tick_osh() {
                Some(released) => {
                    assert!(released.len() == nr);
                    let mut i = 0;
                    while i < nr {
                        assert!(released[i] == rel0[i]);
                        i += 1;
                    }
                    assert!(s.keys.is_empty() && s.released_keys.is_empty() && s.other_pressed_keys.is_empty() && !s.release_on_next_tick);
                }
                None => assert!(false, "release variants end on the tick after the first following key is released"),
            }
            kani::cover!(nr > 0, "ends with deferred releases");
        }
        kani::cover!(!arms && !vk_c06_is_press_variant(s.end_config), "release of a key pressed before the one-shot does not end it");
    }
    kani::cover!(nk > 0 && is_active, "deferred");
}

// @harness name=c06_k3_expiry prop=C06,C01 tier=quick timeout=900
// @encodes OneShotState::tick_osh
// @bounds as c06_k1_other_press
// @assumes none beyond the container bounds
// @spec with no active keys a tick does nothing; otherwise the tick ends the one-shot iff the end was armed or timeout-1 == 0, handing back all deferred releases in order and clearing the whole table; if it does not end, timeout and ignore-counter drop by one and nothing else changes
#[kani::proof]
#[kani::unwind(5)]
fn c06_k3_expiry() {
    let mut s = vk_c06_any_state();
    let (keys0, nk) = vk_c06_snapshot(&s.keys);
    let (rel0, nr) = vk_c06_snapshot(&s.released_keys);
    let t0 = s.timeout;
    let ign0 = s.ticks_to_ignore_events;
    let flag0 = s.release_on_next_tick;
    let nother0 = s.other_pressed_keys.len();
    let r = s.tick_osh();
    if nk == 0 {
        assert!(r.is_none() && s.timeout == t0 && s.ticks_to_ignore_events == ign0 && s.release_on_next_tick == flag0);
        assert!(s.released_keys.len() == nr);
    } else {
        let ends = flag0 || t0 <= 1;
        match r {
            Some(released) => {
                assert!(ends);
                assert!(released.len() == nr);
                let mut i = 0;
                while i < nr {
                    assert!(released[i] == rel0[i]);
                    i += 1;
                }
                assert!(s.keys.is_empty() && s.released_keys.is_empty() && s.other_pressed_keys.is_empty());
                assert!(s.timeout == 0 && !s.release_on_next_tick && s.pause_input_processing_ticks == 0 && s.ticks_to_ignore_events == 0);
                // never lingers: a later press is not modified, a later release is not deferred
                let y: u16 = kani::any();
                kani::assume(y < 5);
                assert!(s.handle_press(OneShotHandlePressKey::Other((0, y))).is_empty());
                assert!(s.handle_press(OneShotHandlePressKey::OneShotKey((0, y))).is_empty());
                let (normal, ov) = s.handle_release((0, y));
                assert!(normal && ov.is_none());
                assert!(s.tick_osh().is_none());
            }
            None => {
                assert!(!ends);
                assert!(s.timeout == t0 - 1);
                assert!(s.ticks_to_ignore_events == ign0.saturating_sub(1));
                assert!(vk_c06_same(&s.keys, &keys0, nk) && s.released_keys.len() == nr && s.other_pressed_keys.len() == nother0);
            }
        }
        kani::cover!(ends && !flag0 && nr == 3, "expires by timeout with 3 deferred releases");
        kani::cover!(!ends, "keeps waiting");
    }
}

// @harness name=c06_k4_oneshot_repress prop=C06 tier=quick timeout=900
// @encodes OneShotState::handle_press(OneShotKey)
// @bounds as c06_k1_other_press
// @assumes none beyond the container bounds
// @spec pressing a one-shot key: cancels its own deferred release (a held one-shot key acts as the plain key while held) and leaves the active set, timeout and other deferred releases alone; only for the pcancel variants and only if that key is already active does it arm the end and report the active keys; inert with no active keys or while ignoring events
#[kani::proof]
#[kani::unwind(5)]
fn c06_k4_oneshot_repress() {
    let mut s = vk_c06_any_state();
    let (keys0, nk) = vk_c06_snapshot(&s.keys);
    let (rel0, nr) = vk_c06_snapshot(&s.released_keys);
    let t0 = s.timeout;
    let ign0 = s.ticks_to_ignore_events;
    let flag0 = s.release_on_next_tick;
    let y: u16 = kani::any();
    kani::assume(y < 5);
    let c: KCoord = (0, y);
    let is_active = s.keys.contains(&c);
    let got = s.handle_press(OneShotHandlePressKey::OneShotKey(c));
    assert!(vk_c06_same(&s.keys, &keys0, nk));
    assert!(s.timeout == t0);
    if nk == 0 || ign0 > 0 {
        assert!(got.is_empty() && s.release_on_next_tick == flag0 && s.released_keys.len() == nr);
    } else {
        let cancels = vk_c06_is_repress_variant(s.end_config) && is_active;
        assert!(s.release_on_next_tick == (flag0 || cancels));
        if cancels {
            assert!(vk_c06_same(&got, &keys0, nk));
        } else {
            assert!(got.is_empty());
        }
        // deferred releases: exactly the entries of this key are dropped, the rest keep their order
        let mut j = 0;
        let mut i = 0;
        while i < nr {
            if rel0[i] != c {
                assert!(j < s.released_keys.len() && s.released_keys[j] == rel0[i]);
                j += 1;
            }
            i += 1;
        }
        assert!(s.released_keys.len() == j);
        kani::cover!(cancels, "pcancel arms the end");
        kani::cover!(j < nr, "own deferred release cancelled");
    }
}

// @harness name=c06_k5_overflow prop=C06,C01,C02 tier=quick timeout=1200
// @encodes OneShotState::handle_release with the deferred-release ring full (16)
// @bounds 16 deferred releases with symbolic columns (< 20); one active key
// @assumes none
// @spec when a 17th release is deferred the evicted coordinate is the OLDEST deferred one and is handed to the caller (who releases it), so no deferred release is ever lost
#[kani::proof]
#[kani::unwind(18)]
fn c06_k5_overflow() {
    let mut s = OneShotState {
        keys: ArrayDeque::new(),
        released_keys: ArrayDeque::new(),
        other_pressed_keys: ArrayDeque::new(),
        timeout: kani::any(),
        end_config: vk_c06_any_end_config(),
        release_on_next_tick: kani::any(),
        pause_input_processing_delay: kani::any(),
        pause_input_processing_ticks: kani::any(),
        ticks_to_ignore_events: kani::any(),
    };
    let y: u16 = kani::any();
    kani::assume(y < 20);
    let _ = s.keys.push_back((0, y));
    let first: u16 = kani::any();
    kani::assume(first < 20);
    let _ = s.released_keys.push_back((0, first));
    let mut k = 1;
    while k < 16 {
        let z: u16 = kani::any();
        kani::assume(z < 20);
        let _ = s.released_keys.push_back((0, z));
        k += 1;
    }
    assert!(s.released_keys.is_full());
    let (normal, ov) = s.handle_release((0, y));
    assert!(!normal);
    assert!(ov == Some((0, first)), "the oldest deferred release is evicted and returned");
    assert!(s.released_keys.len() == 16 && s.released_keys[15] == (0, y));
}
