// C05-K1: the tap-hold decision function, `WaitingState::tick_wt` -> `handle_hold_tap`,
// for the three built-in variants.  The custom (release-keys / except-keys) closures
// live in the parser crate and are checked there (parser/cfg~custom_tap_hold__c05.rs).

fn vk_c05_first_own_release(q: &Queue, c: KCoord) -> Option<(usize, u16)> {
    let mut r = None;
    let mut i = 0;
    while i < q.len() {
        let e = q[i];
        if r.is_none() && e.event == Event::Release(c.0, c.1) {
            r = Some((i, e.since));
        }
        i += 1;
    }
    r
}

/// index of the first press in the queue
fn vk_c05_first_press(q: &Queue) -> Option<usize> {
    let mut r = None;
    let mut i = 0;
    while i < q.len() {
        if r.is_none() && q[i].event.is_press() {
            r = Some(i);
        }
        i += 1;
    }
    r
}

/// smallest index b such that some Press(j) at a < b is followed by Release(j) at b
fn vk_c05_first_completed_tap(q: &Queue) -> Option<usize> {
    let mut r: Option<usize> = None;
    let mut a = 0;
    while a < q.len() {
        if let Event::Press(i, j) = q[a].event {
            let mut b = a + 1;
            while b < q.len() {
                if q[b].event == Event::Release(i, j) {
                    if r.is_none() || b < r.unwrap() {
                        r = Some(b);
                    }
                }
                b += 1;
            }
        }
        a += 1;
    }
    r
}

#[derive(Clone, Copy, PartialEq, Eq)]
enum VkC05Variant {
    Default,
    Press,
    Permissive,
}

fn vk_c05_holdtap<const N: usize>(variant: VkC05Variant) -> (Option<WaitingAction>, bool, bool) {
    let c: KCoord = (0, 0);
    let cfg = match variant {
        VkC05Variant::Default => HoldTapConfig::Default,
        VkC05Variant::Press => HoldTapConfig::HoldOnOtherKeyPress,
        VkC05Variant::Permissive => HoldTapConfig::PermissiveHold,
    };
    let mut w = vk_waiting_holdtap(cfg, c);
    let (mut q, n) = vk_any_queue::<N>(3);
    let mut aq: ActionQueue<'static, u8> = ArrayDeque::new();
    let t0 = w.timeout;
    let d0 = w.delay;
    let k0 = w.ticks;
    let p0 = w.prev_queue_len;
    let own = vk_c05_first_own_release(&q, c);
    let own_idx = match own { Some((i, _)) => i, None => usize::MAX };
    // early trigger of the variant: (exists at all, exists before the own release)
    let (trig_any, trig_before_own) = match variant {
        VkC05Variant::Default => (false, false),
        VkC05Variant::Press => match vk_c05_first_press(&q) {
            Some(a) => (true, a < own_idx),
            None => (false, false),
        },
        VkC05Variant::Permissive => match vk_c05_first_completed_tap(&q) {
            Some(b) => (true, b < own_idx),
            None => (false, false),
        },
    };

    let r = w.tick_wt(&mut q, &mut aq);

    // bookkeeping of the step
    let t1: i32 = if t0 == 0 { 0 } else { t0 as i32 - 1 };
    assert!(w.timeout as i32 == t1);
    assert!(w.ticks == if k0 == u16::MAX { k0 } else { k0 + 1 });
    assert!(q.len() == n, "the decision function must not consume queued events");
    assert!(aq.is_empty());
    assert!(w.hold as *const _ == &VK_HOLD as *const _ && w.tap as *const _ == &VK_TAP as *const _);

    let fast = (n as u8 == p0) && t1 > 0;
    // the timing rule: release before the deadline <=> remaining timeout exceeds what was
    // left of the initial queueing delay when the release arrived
    let base = match own {
        Some((_, since)) => {
            let rem = core::cmp::max(0, d0 as i32 - since as i32);
            if t1 > rem { Some(WaitingAction::Tap) } else { Some(WaitingAction::Timeout) }
        }
        None => if t1 == 0 { Some(WaitingAction::Timeout) } else { None },
    };
    let ra = r.as_ref().map(|x| x.0);
    if let Some((_, pq)) = &r {
        assert!(pq.is_none());
    }
    assert!(ra != Some(WaitingAction::NoOp), "a tap-hold press is never dropped");
    if fast {
        assert!(ra.is_none(), "fast path: nothing new and not timed out");
    } else if trig_before_own {
        assert!(ra == Some(WaitingAction::Hold), "documented early trigger => hold");
    } else if !trig_any {
        assert!(ra == base, "no early trigger => tap / timeout / pending by the timing rule");
        assert!(ra != Some(WaitingAction::Hold));
    } else {
        // the trigger exists but only after the own release was queued (both arrived within one
        // tick): either resolution is accepted
        assert!(ra == Some(WaitingAction::Hold) || ra == base);
    }
    if !fast {
        assert!(w.prev_queue_len == n as u8);
    }
    kani::cover!(ra == Some(WaitingAction::Tap), "tap reachable");
    kani::cover!(ra == Some(WaitingAction::Timeout) && own.is_some(), "late release reachable");
    kani::cover!(ra == Some(WaitingAction::Timeout) && own.is_none(), "pure timeout reachable");
    kani::cover!(ra.is_none() && !fast, "slow-path pending reachable");
    kani::cover!(ra.is_none() && fast, "fast-path pending reachable");
    (ra, trig_any, trig_before_own)
}

fn vk_c05_holdtap_early<const N: usize>(variant: VkC05Variant) {
    let (ra, trig_any, trig_before_own) = vk_c05_holdtap::<N>(variant);
    kani::cover!(ra == Some(WaitingAction::Hold) && trig_before_own, "early hold reachable");
    kani::cover!(trig_any && !trig_before_own, "trigger after own release reachable");
}

// @harness name=c05_k1_default prop=C05 tier=quick timeout=900
// @encodes WaitingState::tick_wt, WaitingState::handle_hold_tap (HoldTapConfig::Default), WaitingState::is_corresponding_release
// @inst Layout-independent; T = u8
// @bounds queue <= 3 symbolic press/release events over 3 coordinates; timeout, delay, ticks, prev_queue_len and every queued `since` unconstrained u16/u8
// @assumes none beyond the queue bound
// @spec step bookkeeping (timeout-1 saturating, ticks+1 saturating, queue untouched); never NoOp; fast path => None; no own release => Timeout iff timeout-1 == 0 else None; own release queued => Tap iff timeout-1 > max(0, delay-since) else Timeout; never Hold
#[kani::proof]
#[kani::unwind(5)]
fn c05_k1_default() {
    vk_c05_holdtap::<3>(VkC05Variant::Default);
}

// @harness name=c05_k1_press prop=C05 tier=quick timeout=900
// @encodes WaitingState::tick_wt, WaitingState::handle_hold_tap (HoldTapConfig::HoldOnOtherKeyPress)
// @bounds queue <= 3 symbolic events over 3 coordinates; all scalars unconstrained
// @assumes none beyond the queue bound
// @spec as c05_k1_default, plus: a press queued before the own release => Hold; no press queued => timing rule and never Hold; press queued only after the own release => Hold or timing rule
#[kani::proof]
#[kani::unwind(5)]
fn c05_k1_press() {
    vk_c05_holdtap_early::<3>(VkC05Variant::Press);
}

// @harness name=c05_k1_permissive prop=C05 tier=quick timeout=900
// @encodes WaitingState::tick_wt, WaitingState::handle_hold_tap (HoldTapConfig::PermissiveHold)
// @bounds queue <= 3 symbolic events over 3 coordinates; all scalars unconstrained
// @assumes none beyond the queue bound
// @spec as c05_k1_default, plus: another key pressed AND released before the own release => Hold; no completed press+release pair => timing rule and never Hold
#[kani::proof]
#[kani::unwind(5)]
fn c05_k1_permissive() {
    vk_c05_holdtap_early::<3>(VkC05Variant::Permissive);
}

// @harness name=c05_k1_default_q4 prop=C05 tier=thorough timeout=2400
// @encodes WaitingState::tick_wt, WaitingState::handle_hold_tap (HoldTapConfig::Default)
// @bounds queue <= 4 symbolic events over 3 coordinates; all scalars unconstrained
// @assumes none beyond the queue bound
// @spec as c05_k1_default
#[kani::proof]
#[kani::unwind(6)]
fn c05_k1_default_q4() {
    vk_c05_holdtap::<4>(VkC05Variant::Default);
}

// @harness name=c05_k1_press_q4 prop=C05 tier=thorough timeout=2400
// @encodes WaitingState::tick_wt, WaitingState::handle_hold_tap (HoldTapConfig::HoldOnOtherKeyPress)
// @bounds queue <= 4 symbolic events over 3 coordinates; all scalars unconstrained
// @assumes none beyond the queue bound
// @spec as c05_k1_press
#[kani::proof]
#[kani::unwind(6)]
fn c05_k1_press_q4() {
    vk_c05_holdtap_early::<4>(VkC05Variant::Press);
}

// @harness name=c05_k1_permissive_q4 prop=C05 tier=thorough timeout=2400
// @encodes WaitingState::tick_wt, WaitingState::handle_hold_tap (HoldTapConfig::PermissiveHold)
// @bounds queue <= 4 symbolic events over 3 coordinates; all scalars unconstrained
// @assumes none beyond the queue bound
// @spec as c05_k1_permissive
#[kani::proof]
#[kani::unwind(6)]
fn c05_k1_permissive_q4() {
    vk_c05_holdtap_early::<4>(VkC05Variant::Permissive);
}
