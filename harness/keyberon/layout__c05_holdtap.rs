// C05-K1: the tap-hold decision function, `WaitingState::tick_wt` -> `handle_hold_tap`.

fn vk_c05_first_own_release(q: &Queue, c: KCoord) -> Option<u16> {
    let mut r = None;
    let mut i = 0;
    while i < q.len() {
        let e = q[i];
        if r.is_none() && e.event == Event::Release(c.0, c.1) {
            r = Some(e.since);
        }
        i += 1;
    }
    r
}

// @harness name=c05_k1_default prop=C05,C02 tier=quick timeout=600
// @encodes WaitingState::tick_wt, WaitingState::handle_hold_tap (HoldTapConfig::Default), WaitingState::is_corresponding_release
// @bounds queue <= 3 symbolic events over 3 coordinates (thorough: 4); timeout/delay/ticks/prev_queue_len/since full u16/u8 range
// @assumes none beyond the queue bound
// @spec exactly one Option<WaitingAction>; never NoOp or Hold; own release queued => Tap iff timeout-1 > max(0,delay-since) else Timeout; no own release => Timeout iff timeout-1 == 0 else None; fast path (queue length unchanged and timeout-1 > 0) => None
#[kani::proof]
#[kani::unwind(5)]
fn c05_k1_default() {
    let c: KCoord = (0, 0);
    let mut w = vk_waiting_holdtap(HoldTapConfig::Default, c);
    let (mut q, n) = vk_any_queue::<3>(3);
    let mut aq: ActionQueue<'static, u8> = ArrayDeque::new();
    let t0 = w.timeout;
    let d0 = w.delay;
    let k0 = w.ticks;
    let p0 = w.prev_queue_len;
    let own = vk_c05_first_own_release(&q, c);
    let r = w.tick_wt(&mut q, &mut aq);
    let t1: i32 = if t0 == 0 { 0 } else { t0 as i32 - 1 };
    assert!(w.timeout as i32 == t1);
    assert!(w.ticks == if k0 == u16::MAX { k0 } else { k0 + 1 });
    assert!(q.len() == n);
    assert!(aq.is_empty());
    let fast = (n as u8 == p0) && t1 > 0;
    let expect = if fast {
        None
    } else {
        match own {
            Some(since) => {
                let rem = core::cmp::max(0, d0 as i32 - since as i32);
                if t1 > rem { Some(WaitingAction::Tap) } else { Some(WaitingAction::Timeout) }
            }
            None => if t1 == 0 { Some(WaitingAction::Timeout) } else { None },
        }
    };
    let ra = r.as_ref().map(|x| x.0);
    match &r {
        None => assert!(expect.is_none()),
        Some((a, pq)) => {
            let a = *a;
            assert!(pq.is_none());
            assert!(a != WaitingAction::NoOp && a != WaitingAction::Hold);
            assert!(expect == Some(a));
        }
    }
    kani::cover!(ra == Some(WaitingAction::Tap), "tap reachable");
    kani::cover!(ra == Some(WaitingAction::Timeout) && own.is_some(), "late release reachable");
    kani::cover!(ra == Some(WaitingAction::Timeout) && own.is_none(), "pure timeout reachable");
    kani::cover!(ra.is_none() && !fast, "slow-path None reachable");
    kani::cover!(ra.is_none() && fast, "fast-path None reachable");
}
