// C18-K1/K2: virtual-key operations, `handle_fakekey_action` and `states_has_coord`.
use kanata_keyberon::layout::verif_kani::{vk_layout_literal, VK_LAYERS, VK_SRC, VK_CUSTOM_VALS};
use kanata_keyberon::layout::{NormalKeyFlags, Queued};
use kanata_keyberon::key_code::KeyCode as VkKc;

fn vk_c18(action: FakeKeyAction) -> (bool, usize) {
    let mut l: Layout<'static, 3, 2, u8> = vk_layout_literal(&VK_SRC, &VK_LAYERS);
    // three states of different kinds at symbolic coordinates (row 1 = virtual keys) plus a macro-held key
    let c0: (u8, u16) = (kani::any::<u8>() & 1, kani::any::<u16>() % 3);
    let c1: (u8, u16) = (kani::any::<u8>() & 1, kani::any::<u16>() % 3);
    let c2: (u8, u16) = (kani::any::<u8>() & 1, kani::any::<u16>() % 3);
    let n: usize = kani::any();
    kani::assume(n <= 3);
    if n > 0 {
        let _ = l.states.push(State::NormalKey { keycode: VkKc::A, coord: c0, flags: NormalKeyFlags(0) });
    }
    if n > 1 {
        let _ = l.states.push(State::LayerModifier { value: 1, coord: c1 });
    }
    if n > 2 {
        let _ = l.states.push(State::Custom { value: &VK_CUSTOM_VALS[0], coord: c2 });
    }
    let _ = l.states.push(State::FakeKey { keycode: VkKc::B });
    // a repeating macro started from a virtual key is only visible as a RepeatingSequence state
    let c3: (u8, u16) = (kani::any::<u8>() & 1, kani::any::<u16>() % 3);
    let has_rpt: bool = kani::any();
    if has_rpt {
        let _ = l.states.push(State::RepeatingSequence { sequence: &kanata_keyberon::layout::verif_kani::VK_SEQ_EVENTS, coord: c3 });
    }
    let y: u16 = kani::any();
    kani::assume(y < 3);
    let down = (n > 0 && c0 == (1, y)) || (n > 1 && c1 == (1, y)) || (n > 2 && c2 == (1, y)) || (has_rpt && c3 == (1, y));
    assert!(states_has_coord(&l.states, 1, y) == down, "a virtual key is 'pressed' iff a state created at its coordinate exists");
    handle_fakekey_action(action, &mut l, 1, y);
    let first = l.queue.pop_front().map(|q: Queued| q.event());
    let second = l.queue.pop_front().map(|q: Queued| q.event());
    assert!(l.queue.is_empty());
    match action {
        FakeKeyAction::Press => assert!(first == Some(Event::Press(1, y)) && second.is_none()),
        FakeKeyAction::Release => assert!(first == Some(Event::Release(1, y)) && second.is_none()),
        FakeKeyAction::Tap => assert!(first == Some(Event::Press(1, y)) && second == Some(Event::Release(1, y))),
        FakeKeyAction::Toggle => {
            assert!(second.is_none());
            if down {
                assert!(first == Some(Event::Release(1, y)), "toggle releases a virtual key that is down");
            } else {
                assert!(first == Some(Event::Press(1, y)), "toggle presses a virtual key that is up");
            }
        }
    }
    core::mem::forget(l);
    (down, n)
}

// @harness name=c18_k1_toggle prop=C18 tier=quick timeout=2400
// @encodes handle_fakekey_action (Toggle), states_has_coord, Layout::event
// @inst Layout<3, 2, u8> (the function is generic; kanata uses <767, 2, &&[&CustomAction]>)
// @bounds 0..=3 states (plain key, held layer, custom action) and optionally a repeating-macro state at symbolic coordinates over 2 rows x 3 columns, plus one macro-held key; symbolic virtual key column
// @assumes none beyond the bounds
// @spec toggle queues exactly one event for the virtual key: a release iff some state was created at its coordinate, else a press
#[kani::proof]
#[kani::unwind(6)]
fn c18_k1_toggle() {
    let (down, n) = vk_c18(FakeKeyAction::Toggle);
    kani::cover!(down, "toggle on a pressed virtual key");
    kani::cover!(!down && n == 3, "toggle on a released virtual key with other keys down");
}

// @harness name=c18_k1_press_release_tap prop=C18 tier=quick timeout=2400
// @encodes handle_fakekey_action (Press, Release, Tap), Layout::event
// @inst Layout<3, 2, u8>
// @bounds as c18_k1_toggle; the operation is symbolic among press / release / tap
// @assumes none beyond the bounds
// @spec press queues exactly Press, release exactly Release, tap exactly Press then Release, all at the virtual key's coordinate and regardless of the current state
#[kani::proof]
#[kani::unwind(6)]
fn c18_k1_press_release_tap() {
    let k: u8 = kani::any();
    kani::assume(k < 3);
    vk_c18(match k {
        0 => FakeKeyAction::Press,
        1 => FakeKeyAction::Release,
        _ => FakeKeyAction::Tap,
    });
    kani::cover!(k == 2, "tap");
}
