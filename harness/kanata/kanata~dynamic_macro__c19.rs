// C19 / C02: dynamic macro recording bookkeeping (`begin_record_macro`, `stop_macro`, `record_press`).

// @harness name=c19_k1_stop_bookkeeping prop=C19,C02 tier=quick timeout=2400
// @encodes stop_macro, begin_record_macro (stop / restart branch), tick_record_state, DynamicMacroRecordState::new, add_release_for_all_unreleased_presses (empty case)
// @bounds a recording that has seen NO key event yet (reachable: record and stop fired from the same key press, e.g. one `multi`, or two record actions in a row) with a symbolic id, a symbolic number of elapsed ticks 0..=2 and a symbolic truncation count; ended symbolically by stop_macro or by a second begin_record_macro (same or other id)
// @assumes none beyond the bounds
// @spec ending a recording never panics; a recording without events is saved as an empty macro under its own id; stopping leaves no recording in progress, a second record action with another id starts the new recording
#[kani::proof]
#[kani::unwind(4)]
fn c19_k1_stop_bookkeeping() {
    let id: u16 = kani::any();
    let mut rs: Option<DynamicMacroRecordState> = None;
    assert!(begin_record_macro(id, &mut rs).is_none());
    let ticks: u8 = kani::any();
    kani::assume(ticks <= 2);
    let mut t = 0;
    while t < ticks {
        tick_record_state(&mut rs);
        t += 1;
    }
    let how: u8 = kani::any();
    kani::assume(how < 3);
    let saved = match how {
        0 => stop_macro(&mut rs, kani::any()),
        1 => begin_record_macro(id, &mut rs),
        _ => begin_record_macro(id.wrapping_add(1), &mut rs),
    };
    match saved {
        Some((sid, items)) => {
            assert!(sid == id);
            assert!(items.is_empty(), "nothing was typed, nothing is replayed");
            core::mem::forget(items);
        }
        None => assert!(false, "ending a recording saves it"),
    }
    if how == 2 {
        assert!(matches!(&rs, Some(s) if s.starting_macro_id == id.wrapping_add(1) && s.macro_items.is_empty()));
    } else {
        assert!(rs.is_none());
    }
    core::mem::forget(rs);
}
