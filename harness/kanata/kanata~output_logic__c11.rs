// C11-K4: the reserved no-op codes (nop0..nop9 = KEY_676..KEY_685) are never handed to the OS output
// device, every other known code is handed over unchanged, on all three output paths
// (`write_key` = OS key-repeat path, `press_key`, `release_key`).
//
// The output device itself (uinput, FFI) is the environment: its methods are replaced by recording stubs
// (`-Z stubbing`), and the `KbdOut` value is never read (the stubs ignore `self`), so an uninitialised
// one stands in for it.  `post_filter_press/release` (zippychord / device press) are stubbed the same way:
// they are the hand-over point to the OS as far as this filter is concerned.

static mut VK_C11_SENT: u32 = 0;
static mut VK_C11_LAST: u16 = 0;

fn vk_c11_record(osc: OsCode) -> Result<(), std::io::Error> {
    unsafe {
        VK_C11_SENT += 1;
        VK_C11_LAST = u16::from(osc);
    }
    Ok(())
}
fn vk_c11_stub_write_key(_kb: &mut KbdOut, osc: OsCode, _v: KeyValue) -> Result<(), std::io::Error> {
    vk_c11_record(osc)
}
fn vk_c11_stub_post(_kb: &mut KbdOut, osc: OsCode) -> Result<(), std::io::Error> {
    vk_c11_record(osc)
}
fn vk_c11_stub_btn(_kb: &mut KbdOut, _b: Btn) -> Result<(), std::io::Error> {
    unsafe {
        VK_C11_SENT += 1;
        VK_C11_LAST = 0xffff;
    }
    Ok(())
}
fn vk_c11_stub_scroll(_kb: &mut KbdOut, _d: MWheelDirection, _n: u16) -> Result<(), std::io::Error> {
    unsafe {
        VK_C11_SENT += 1;
        VK_C11_LAST = 0xffff;
    }
    Ok(())
}

fn vk_c11_is_nop(v: u16) -> bool {
    // nop0..nop9 as the parser defines them (str_to_oscode: "nop0" => KEY_676 .. "nop9" => KEY_685)
    v >= OsCode::KEY_676 as u16 && v <= OsCode::KEY_685 as u16
}

// @harness name=c11_k4_nop_never_sent prop=C11 tier=quick timeout=1200
// @flags -Z stubbing
// @encodes write_key, press_key, release_key (src/kanata/output_logic.rs), osc_to_btn, osc_to_wheel_direction, OsCode::from_u16, impl From<OsCode> for u16
// @bounds every u16 value that is a known OsCode (Linux tables); one call of one of the three output functions (symbolic choice)
// @assumes the output device (KbdOut::write_key / click_btn / release_btn / scroll) and post_filter_press / post_filter_release (device press or zippychord) are recording stubs that succeed; KbdOut is never read
// @spec a reserved no-op code (nop0..nop9) reaches no device method on any path; every other code reaches exactly one (except the release of a wheel code: none), and a code that goes out as a key goes out with the same numeric value
#[kani::proof]
#[kani::stub(KbdOut::write_key, vk_c11_stub_write_key)]
#[kani::stub(KbdOut::click_btn, vk_c11_stub_btn)]
#[kani::stub(KbdOut::release_btn, vk_c11_stub_btn)]
#[kani::stub(KbdOut::scroll, vk_c11_stub_scroll)]
#[kani::stub(post_filter_press, vk_c11_stub_post)]
#[kani::stub(post_filter_release, vk_c11_stub_post)]
fn c11_k4_nop_never_sent() {
    let v: u16 = kani::any();
    let Some(osc) = OsCode::from_u16(v) else { return };
    let mut slot = core::mem::MaybeUninit::<KbdOut>::uninit();
    let kb: &mut KbdOut = unsafe { &mut *slot.as_mut_ptr() };
    let path: u8 = kani::any();
    kani::assume(path < 3);
    let r = match path {
        0 => write_key(kb, osc, KeyValue::Repeat),
        1 => press_key(kb, osc),
        _ => release_key(kb, osc),
    };
    assert!(r.is_ok());
    core::mem::forget(r);
    let (sent, last) = unsafe { (VK_C11_SENT, VK_C11_LAST) };
    if vk_c11_is_nop(v) {
        assert!(sent == 0, "a reserved no-op code is never sent to the OS");
    } else {
        let is_wheel = matches!(
            osc,
            OsCode::MouseWheelUp | OsCode::MouseWheelDown | OsCode::MouseWheelLeft | OsCode::MouseWheelRight
        );
        if path == 2 && is_wheel {
            assert!(sent == 0, "scroll has no release");
        } else {
            assert!(sent == 1, "every other code is handed to the device exactly once");
            assert!(last == v || last == 0xffff, "a key goes out with the code that came in");
            if path == 0 {
                assert!(last == v, "the repeat path forwards the code itself");
            }
        }
    }
    kani::cover!(vk_c11_is_nop(v) && path == 0, "nop on the repeat path");
    kani::cover!(v == 0x2ad && path == 1, "nop9 on the press path");
    kani::cover!(!vk_c11_is_nop(v) && sent == 1 && last == v && path == 2, "ordinary key released");
    kani::cover!(last == 0xffff, "mouse button / wheel path");
}
