// C11-K1/K2: the OS code space and the internal (keyberon) code space coincide value for value,
// and as_u16 / from_u16 are inverse.  Run with -Z valid-value-checks so that an enum value produced
// by the transmute that is not a declared variant is reported (undefined behaviour) instead of
// silently accepted.

// @harness name=c11_k1_code_spaces prop=C11 tier=quick timeout=2400
// @flags -Z valid-value-checks
// @encodes OsCode::from_u16 (from_u16_linux), impl From<OsCode> for KeyCode, impl From<KeyCode> for OsCode (transmutes)
// @bounds every u16 value (Linux tables: the build target of this sandbox)
// @assumes none
// @spec for every code v: from_u16(v) = Some(o) implies KeyCode::from(o) is a declared KeyCode whose numeric value is v (an undeclared value is reported as invalid by -Z valid-value-checks), converting back gives o again, and v <= 767
#[kani::proof]
fn c11_k1_code_spaces() {
    let v: u16 = kani::any();
    let r = OsCode::from_u16(v);
    if let Some(o) = r {
        assert!(v <= 767, "known codes fit the 768-wide layer row");
        let kc: KeyCode = o.into();
        assert!(kc as u16 == v, "internal and OS code spaces coincide value for value");
        let back: OsCode = kc.into();
        assert!(back == o);
    }
    kani::cover!(r.is_some() && v > 700, "high codes (mouse / extended) covered");
    kani::cover!(r.is_none(), "unknown codes exist");
}

// @harness name=c11_k1_as_from prop=C11 tier=quick timeout=2400
// @encodes OsCode::from_u16 (from_u16_linux), OsCode::as_u16 (as_u16_linux), impl From<OsCode> for u16
// @bounds every u16 value (Linux tables)
// @assumes none
// @spec from_u16 and as_u16 are inverse: from_u16(v) = Some(o) implies o.as_u16() == v and u16::from(o) == v
#[kani::proof]
fn c11_k1_as_from() {
    let v: u16 = kani::any();
    if let Some(o) = OsCode::from_u16(v) {
        assert!(o.as_u16() == v, "from_u16 and as_u16 are inverse");
        assert!(u16::from(o) == v);
    }
}

// @harness name=c11_k2_modifiers prop=C11,C13 tier=quick timeout=1200
// @encodes OsCode::is_modifier, OsCode::from_u16
// @bounds every u16 value
// @assumes none
// @spec exactly the 8 modifier codes (29, 42, 56, 125, 97, 54, 100, 126) are modifiers
#[kani::proof]
fn c11_k2_modifiers() {
    let v: u16 = kani::any();
    if let Some(o) = OsCode::from_u16(v) {
        let expect = matches!(v, 29 | 42 | 56 | 125 | 97 | 54 | 100 | 126);
        assert!(o.is_modifier() == expect);
    }
}
