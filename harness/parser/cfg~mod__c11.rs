// C11-K3: the defsrc layer is the identity (one key code per column), index 0 is forced to no-op.

// @harness name=c11_k3_defsrc_layer prop=C11 tier=thorough timeout=3600
// @encodes create_defsrc_layer, OsCode::from_u16, impl From<OsCode> for KeyCode
// @bounds the full 767-column row; the inspected column is symbolic
// @assumes none
// @spec column 0 is no-op; every other column i holds exactly the key whose code is i when such a key exists, and no-op otherwise: a key left transparent (or `use-defsrc`) comes out as the code that went in
#[kani::proof]
#[kani::unwind(770)]
fn c11_k3_defsrc_layer() {
    let layer = create_defsrc_layer();
    let i: usize = kani::any();
    kani::assume(i < KEYS_IN_ROW);
    match layer[i] {
        Action::NoOp => assert!(i == 0 || OsCode::from_u16(i as u16).is_none()),
        Action::KeyCode(kc) => {
            assert!(i != 0, "index 0 is reserved");
            assert!(kc as u16 == i as u16, "the defsrc key of column i is key code i");
            assert!(OsCode::from_u16(i as u16).is_some());
        }
        _ => assert!(false, "the defsrc layer holds only keys and no-ops"),
    }
    kani::cover!(i > 700 && matches!(layer[i], Action::KeyCode(_)), "high key code present");
}
