// C03-K1a: the lexer (`Lexer::next_token` over `PositionCountingBytesIterator`) is total and its token
// boundaries tile the input: every token is non-empty, starts where the previous one ended, ends inside the
// text, and the lexer terminates.

fn vk_c03_lex<const N: usize>(ignore: bool) {
    let mut buf = [b' '; N];
    let n: usize = kani::any();
    kani::assume(n <= N);
    let mut i = 0;
    while i < N {
        let b: u8 = kani::any();
        kani::assume(b < 128 && b != 0);
        buf[i] = b;
        i += 1;
    }
    // ASCII only: any byte string < 128 is valid UTF-8
    let text: &str = unsafe { core::str::from_utf8_unchecked(&buf[..n]) };
    let mut lexer = Lexer { bytes: PositionCountingBytesIterator::new(text), ignore_whitespace_and_comments: ignore };
    let mut prev_end = 0usize;
    let mut tokens = 0usize;
    let mut errored = false;
    let mut k = 0;
    while k <= N {
        if !errored {
            match lexer.next_token() {
                Some((start, tok)) => {
                    let end = lexer.bytes.pos();
                    assert!(start.absolute < end.absolute, "every token consumes at least one byte (progress => termination)");
                    assert!(end.absolute <= n, "a token never extends beyond the text");
                    if ignore {
                        assert!(start.absolute >= prev_end);
                    } else {
                        assert!(start.absolute == prev_end, "tokens tile the input without gaps or overlap");
                    }
                    assert!(start.line_beginning <= start.absolute && end.line_beginning <= end.absolute);
                    prev_end = end.absolute;
                    tokens += 1;
                    if let Err(e) = tok {
                        errored = true; // the tree builder stops at the first lexer error
                        core::mem::forget(e);
                    }
                }
                None => {
                    assert!(lexer.bytes.pos().absolute == n, "the lexer stops only at the end of the text");
                    if !ignore {
                        assert!(prev_end == n);
                    }
                    errored = true;
                }
            }
        }
        k += 1;
    }
    assert!(errored, "at most one token per byte: the lexer is finished after N + 1 calls");
    kani::cover!(tokens == N, "one token per byte");
    kani::cover!(tokens == 1 && n == N, "one long token");
}

// @harness name=c03_k1a_lexer_keep prop=C03 tier=thorough timeout=5400
// @encodes Lexer::next_token, next_while, next_string, next_whitespace, read_until_multiline_string_end, read_until_multiline_comment_end, PositionCountingBytesIterator::{new, pos, next}
// @bounds every ASCII text (bytes 1..=127) of length <= 4; whitespace and comments kept as tokens
// @assumes ASCII bytes (multi-byte characters are outside this harness)
// @spec the lexer never panics; each call yields a non-empty token that starts exactly where the previous one ended and ends inside the text (spans lie inside the file); it returns None only at the end of the text; it finishes within one call per byte
#[kani::proof]
#[kani::unwind(7)]
fn c03_k1a_lexer_keep() {
    vk_c03_lex::<4>(false);
}

// @harness name=c03_k1a_lexer_skip prop=PARKED tier=thorough timeout=5400
// @note the whitespace/comment-skipping mode loops inside next_token and did not finish within 30 min even for 2 bytes
// @encodes as c03_k1a_lexer_keep (whitespace / comments skipped inside next_token's loop)
// @bounds every ASCII text of length <= 4; whitespace and comments skipped
// @assumes ASCII bytes
// @spec as c03_k1a_lexer_keep, with gaps allowed only where whitespace or comments were skipped
#[kani::proof]
#[kani::unwind(7)]
fn c03_k1a_lexer_skip() {
    vk_c03_lex::<4>(true);
}

// @harness name=c03_k1a_lexer_keep3 prop=C03 tier=thorough timeout=3600
// @encodes as c03_k1a_lexer_keep
// @bounds every ASCII text (bytes 1..=127) of length <= 3; whitespace and comments kept as tokens
// @assumes ASCII bytes
// @spec as c03_k1a_lexer_keep
#[kani::proof]
#[kani::unwind(6)]
fn c03_k1a_lexer_keep3() {
    vk_c03_lex::<3>(false);
}

// @harness name=c03_k1a_lexer_skip3 prop=PARKED tier=thorough timeout=5400
// @note the whitespace/comment-skipping mode loops inside next_token and did not finish within 30 min even for 2 bytes
// @encodes as c03_k1a_lexer_skip
// @bounds every ASCII text of length <= 3; whitespace and comments skipped
// @assumes ASCII bytes
// @spec as c03_k1a_lexer_skip
#[kani::proof]
#[kani::unwind(6)]
fn c03_k1a_lexer_skip3() {
    vk_c03_lex::<3>(true);
}

// @harness name=c03_k1a_lexer_keep2 prop=C03,C02 tier=quick timeout=1800
// @encodes as c03_k1a_lexer_keep
// @bounds every ASCII text (bytes 1..=127) of length <= 2 (includes every two-byte opener: `;;`, `#|`, `r#`, `""`, `()`); whitespace and comments kept as tokens
// @assumes ASCII bytes
// @spec as c03_k1a_lexer_keep
#[kani::proof]
#[kani::unwind(5)]
fn c03_k1a_lexer_keep2() {
    vk_c03_lex::<2>(false);
}

// @harness name=c03_k1a_lexer_skip2 prop=PARKED tier=thorough timeout=5400
// @note the whitespace/comment-skipping mode loops inside next_token and did not finish within 30 min even for 2 bytes
// @encodes as c03_k1a_lexer_skip
// @bounds every ASCII text of length <= 2; whitespace and comments skipped
// @assumes ASCII bytes
// @spec as c03_k1a_lexer_skip
#[kani::proof]
#[kani::unwind(5)]
fn c03_k1a_lexer_skip2() {
    vk_c03_lex::<2>(true);
}
