// C12-K2: the permutation generator used to expand O-(...) groups of defseq.

// @harness name=c12_k2_permutations prop=C12 tier=quick timeout=2400
// @encodes gen_permutations, heaps_alg
// @bounds 3 symbolic, pairwise distinct u16 elements
// @assumes elements pairwise distinct
// @spec exactly 3! = 6 results, each a permutation of the input (same multiset), pairwise different: every ordering of an overlapping group is generated exactly once
#[kani::proof]
#[kani::unwind(8)]
fn c12_k2_permutations() {
    let a: [u16; 3] = [kani::any(), kani::any(), kani::any()];
    kani::assume(a[0] != a[1] && a[0] != a[2] && a[1] != a[2]);
    let ps = gen_permutations(&a);
    assert!(ps.len() == 6);
    let mut i = 0;
    while i < 6 {
        let p = &ps[i];
        assert!(p.len() == 3);
        assert!(p.contains(&a[0]) && p.contains(&a[1]) && p.contains(&a[2]));
        let mut j = 0;
        while j < i {
            let q = &ps[j];
            assert!(!(p[0] == q[0] && p[1] == q[1] && p[2] == q[2]), "no ordering is generated twice");
            j += 1;
        }
        i += 1;
    }
    core::mem::forget(ps);
}
