// C12-K3: the modifier / overlap bit encoding used for sequence keys.

// @harness name=c12_k3_mod_mask prop=C12 tier=quick timeout=1800
// @encodes mod_mask_for_keycode, MASK_KEYCODES, MASK_MODDED, KEY_OVERLAP_MARKER
// @bounds every key code reachable from an OS code (every u16 through OsCode::from_u16)
// @assumes none
// @spec the mask of a key is non-zero iff it is one of the 8 modifiers or the overlap marker key; masks never touch the key-code bits (0x03FF), so a modded key code decodes uniquely; the six classes (shift, ctrl, lalt, ralt, meta, overlap) have pairwise distinct single bits; every key code fits into the key-code bits
#[kani::proof]
fn c12_k3_mod_mask() {
    let v: u16 = kani::any();
    let w: u16 = kani::any();
    if let (Some(a), Some(b)) = (crate::keys::OsCode::from_u16(v), crate::keys::OsCode::from_u16(w)) {
        let ka: KeyCode = a.into();
        let kb: KeyCode = b.into();
        let ma = mod_mask_for_keycode(ka);
        let mb = mod_mask_for_keycode(kb);
        assert!(ma & MASK_KEYCODES == 0, "modifier bits never overlap the key-code bits");
        assert!(ma & !MASK_MODDED == 0);
        assert!(v & MASK_MODDED == 0, "every key code fits below the modifier bits");
        assert!(ma == 0 || ma.count_ones() == 1);
        let class = |k: KeyCode| -> u8 {
            use KeyCode::*;
            match k {
                LShift | RShift => 1,
                LCtrl | RCtrl => 2,
                LAlt => 3,
                RAlt => 4,
                LGui | RGui => 5,
                ErrorRollOver => 6,
                _ => 0,
            }
        };
        assert!((ma != 0) == (class(ka) != 0));
        if ma != 0 && mb != 0 {
            assert!((ma == mb) == (class(ka) == class(kb)), "different modifier classes never share a bit");
        }
        // (key | mask) decodes back to the key and the mask
        let combined = (kb as u16) | ma;
        assert!(combined & MASK_KEYCODES == kb as u16 && combined & MASK_MODDED == ma);
    }
}
