// C13-K2/K3: override validation and the eager-erasure marking.

// @harness name=c13_k3_eager_erasure prop=C13 tier=quick timeout=1800
// @encodes mark_overridden_nonmodkeys_for_eager_erasure, OverrideStates::removed_oscs, OsCode::is_modifier
// @bounds removed-key list of 2 symbolic keys drawn from {a, b, lsft, lctl}; 3 keyboard states of symbolic kind (NormalKey with symbolic key among the same 4 and symbolic flags / LayerModifier / FakeKey)
// @assumes none beyond the bounds
// @spec exactly the NormalKey states whose key is a removed NON-modifier key get both clear-on-next-action and clear-on-next-release set; key, coordinate and every other state are unchanged; modifiers are never marked
#[kani::proof]
#[kani::unwind(5)]
fn c13_k3_eager_erasure() {
    let pick = |k: u8| -> OsCode {
        match k & 3 {
            0 => OsCode::KEY_A,
            1 => OsCode::KEY_B,
            2 => OsCode::KEY_LEFTSHIFT,
            _ => OsCode::KEY_LEFTCTRL,
        }
    };
    let r0 = pick(kani::any());
    let r1 = pick(kani::any());
    let os = OverrideStates { mods_pressed: kani::any(), oscs_to_remove: vec![r0, r1], oscs_to_add: Vec::new() };
    let mk = |sel: u8, k: u8, f: u8, y: u16| -> State<'static, u8> {
        match sel % 3 {
            0 => State::NormalKey { keycode: pick(k).into(), coord: (0, y), flags: kanata_keyberon::layout::NormalKeyFlags(f & 3) },
            1 => State::LayerModifier { value: 1, coord: (0, y) },
            _ => State::FakeKey { keycode: pick(k).into() },
        }
    };
    let before: [State<'static, u8>; 3] = [
        mk(kani::any(), kani::any(), kani::any(), 1),
        mk(kani::any(), kani::any(), kani::any(), 2),
        mk(kani::any(), kani::any(), kani::any(), 3),
    ];
    let mut after = before;
    mark_overridden_nonmodkeys_for_eager_erasure(&os, &mut after);
    let both = NORMAL_KEY_FLAG_CLEAR_ON_NEXT_ACTION | NORMAL_KEY_FLAG_CLEAR_ON_NEXT_RELEASE;
    let mut i = 0;
    while i < 3 {
        match (before[i], after[i]) {
            (State::NormalKey { keycode: k0, coord: c0, flags: f0 }, State::NormalKey { keycode: k1, coord: c1, flags: f1 }) => {
                assert!(k0 == k1 && c0 == c1);
                let osc: OsCode = k0.into();
                let removed_nonmod = (osc == r0 || osc == r1) && !osc.is_modifier();
                if removed_nonmod {
                    assert!(f1.0 == f0.0 | both, "an overridden non-modifier key is marked for eager erasure");
                } else {
                    assert!(f1.0 == f0.0, "other keys (and all modifiers) are left alone");
                }
                kani::cover!(removed_nonmod && f0.0 == 0, "marked");
                kani::cover!(!removed_nonmod && (osc == r0) , "removed modifier is not marked");
            }
            (State::LayerModifier { value: v0, coord: c0 }, State::LayerModifier { value: v1, coord: c1 }) => assert!(v0 == v1 && c0 == c1),
            (State::FakeKey { keycode: k0 }, State::FakeKey { keycode: k1 }) => assert!(k0 == k1),
            _ => assert!(false, "state kind changed"),
        }
        i += 1;
    }
    core::mem::forget(os);
}

// @harness name=c13_k2_mask prop=C13 tier=quick timeout=1200
// @encodes mask_for_key
// @bounds every OS code (all u16 through from_u16), pairs of codes
// @assumes none
// @spec mask_for_key is Some exactly for the 8 modifiers, each a distinct single bit: a set of modifiers is represented without collisions
#[kani::proof]
fn c13_k2_mask() {
    let v: u16 = kani::any();
    let w: u16 = kani::any();
    if let (Some(a), Some(b)) = (OsCode::from_u16(v), OsCode::from_u16(w)) {
        let ma = mask_for_key(a);
        let mb = mask_for_key(b);
        assert!(ma.is_some() == a.is_modifier());
        if let (Some(x), Some(y)) = (ma, mb) {
            assert!(x.count_ones() == 1);
            assert!((x == y) == (a == b), "distinct modifiers have distinct bits");
        }
    }
}

// @harness name=c13_k1_update_mods prop=C13 tier=quick timeout=1800
// @encodes OverrideStates::update (modifier branch), mask_for_key
// @bounds symbolic accumulated modifier mask (u8); the next active key is any of the 8 modifiers (symbolic); empty override table
// @assumes none beyond the bounds
// @spec scanning the active key list ACCUMULATES held modifiers: after a modifier key the mask is the old mask plus that modifier's bit (earlier modifiers are not forgotten), and nothing is scheduled for removal or addition
#[kani::proof]
#[kani::unwind(4)]
fn c13_k1_update_mods() {
    let ovs = Overrides { overrides_by_osc: HashMap::default() };
    let m0: u8 = kani::any();
    let mut st = OverrideStates { mods_pressed: m0, oscs_to_remove: Vec::new(), oscs_to_add: Vec::new() };
    let k: u8 = kani::any();
    kani::assume(k < 8);
    let (osc, bit) = match k {
        0 => (OsCode::KEY_LEFTCTRL, 1u8 << 0),
        1 => (OsCode::KEY_LEFTSHIFT, 1 << 1),
        2 => (OsCode::KEY_LEFTALT, 1 << 2),
        3 => (OsCode::KEY_LEFTMETA, 1 << 3),
        4 => (OsCode::KEY_RIGHTCTRL, 1 << 4),
        5 => (OsCode::KEY_RIGHTSHIFT, 1 << 5),
        6 => (OsCode::KEY_RIGHTALT, 1 << 6),
        _ => (OsCode::KEY_RIGHTMETA, 1 << 7),
    };
    st.update(osc, &ovs);
    assert!(st.mods_pressed == m0 | bit, "held modifiers accumulate");
    assert!(st.oscs_to_add.is_empty() && st.oscs_to_remove.is_empty());
    kani::cover!(m0 != 0 && m0 & bit == 0, "a second, different modifier");
    core::mem::forget(st);
    core::mem::forget(ovs);
}

// @harness name=c13_k1_update_keys prop=PARKED tier=thorough timeout=3600
// @note does not finish (25 min in symbolic execution): FxHashMap construction and lookup even for a concrete 2-entry table
// @encodes Overrides::new, Overrides::update_keys, Override::try_new, Override::get_mod_mask, add_override_keys, add_removed_keys
// @bounds a concrete table of two overrides of the key a with NON-nested modifier sets: {lctl, lsft} a -> x and {lalt} a -> y; the set of currently held modifiers is a symbolic u8 mask
// @assumes none beyond the bounds
// @spec no override fires unless all its modifiers are held; if both match, the one with MORE modifiers (lctl+lsft) wins; the winner's inputs are scheduled for removal and its outputs for addition
#[kani::proof]
#[kani::unwind(6)]
fn c13_k1_update_keys() {
    let o1 = Override::try_new(&[OsCode::KEY_LEFTCTRL, OsCode::KEY_LEFTSHIFT, OsCode::KEY_A], &[OsCode::KEY_X]).unwrap();
    let o2 = Override::try_new(&[OsCode::KEY_LEFTALT, OsCode::KEY_A], &[OsCode::KEY_Y]).unwrap();
    let ovs = Overrides::new(&[o2, o1]);
    let held: u8 = kani::any();
    let mut add: Vec<OsCode> = Vec::new();
    let mut rem: Vec<OsCode> = Vec::new();
    ovs.update_keys(OsCode::KEY_A, held, &mut add, &mut rem);
    let m1 = held & 0b011 == 0b011; // lctl | lsft
    let m2 = held & 0b100 == 0b100; // lalt
    if m1 {
        assert!(add.len() == 1 && add[0] == OsCode::KEY_X, "the override with the most modifiers wins");
        assert!(rem.len() == 3 && rem.contains(&OsCode::KEY_LEFTCTRL) && rem.contains(&OsCode::KEY_LEFTSHIFT) && rem.contains(&OsCode::KEY_A));
    } else if m2 {
        assert!(add.len() == 1 && add[0] == OsCode::KEY_Y);
        assert!(rem.len() == 2 && rem.contains(&OsCode::KEY_LEFTALT) && rem.contains(&OsCode::KEY_A));
    } else {
        assert!(add.is_empty() && rem.is_empty(), "no match: the key list is left alone");
    }
    kani::cover!(m1 && m2, "both overrides match");
    core::mem::forget(add);
    core::mem::forget(rem);
    core::mem::forget(ovs);
}
